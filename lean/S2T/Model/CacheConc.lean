import S2T.Model.Cache
/-
`_pypdf_aes_fallback._get_round_keys` called by several threads at once (the cache is a module global, so
every thread of the process that extracts an AES-encrypted PDF shares it).

    def _get_round_keys(key):
        with _ROUND_KEY_CACHE_LOCK:                      -- region 1  (`lookup`)
            cached = _ROUND_KEY_CACHE.get(key)
            if cached is not None:
                _ROUND_KEY_CACHE.move_to_end(key)
                return cached
        round_keys = _expand_key(key)                    -- `expand`  (no shared state; may raise ValueError)
        with _ROUND_KEY_CACHE_LOCK:                      -- region 2  (`store`)
            _ROUND_KEY_CACHE[key] = round_keys
            if len(_ROUND_KEY_CACHE) > _ROUND_KEY_CACHE_MAX:
                _ROUND_KEY_CACHE.popitem(last=False)
        return round_keys

`Fixed` (fix-round-key-cache-lock.patch): every access of the cache happens inside a `with _ROUND_KEY_CACHE_LOCK`
block (generated fact `S2T.Gen.GlobalWrites.cacheAccesses`, theorem `cache_accesses_locked`), so the two regions
are atomic with respect to each other and are ONE step each of the model; a thread can be preempted before
region 1, inside / around `_expand_key`, and before region 2.

`Legacy` = the code before the fix, no lock: every `OrderedDict` operation is a step of its own
(lookup / touch = `move_to_end` / expand / store / evict).  Kept for the counterexample theorem: between
the lookup and the touch of a thread other threads can evict its key, `move_to_end` raises `KeyError`.

Threads are a `List`; a scheduler is an arbitrary `List Nat` of thread ids; a step of a thread that does not
exist or is finished leaves the state unchanged.  Number of threads, keys, `f` (= `_expand_key`) arbitrary.
-/
namespace S2T.CacheConc
open S2T.Cache

inductive Pc
  | lookup | touch | expand | store | evict | done
  deriving DecidableEq, Repr, Inhabited

/-- outcome of one call -/
inductive Res (V E : Type)
  | ok (v : V)          -- returned `v`
  | err (e : E)         -- `_expand_key` raised
  | keyError            -- an `OrderedDict` operation raised `KeyError` (never, in the fixed code)
  deriving DecidableEq, Repr

structure Thr (K V E : Type) where
  key : K
  pc  : Pc := .lookup
  loc : Option V := none                 -- `cached` / `round_keys`
  res : Option (Res V E) := none
  deriving DecidableEq, Repr

structure St (K V E : Type) where
  cache : Cache K V
  thr   : List (Thr K V E)
  deriving DecidableEq, Repr

/-- `d[k] = v` of a dict: overwrite in place (position kept) or append -/
def put {K V} [DecidableEq K] (k : K) (v : V) : Cache K V → Cache K V
  | [] => [(k, v)]
  | (k', v') :: r => if k = k' then (k, v) :: r else (k', v') :: put k v r

/-- what the call must return according to the uncached function -/
def expected {K V E} (f : K → Except E V) (k : K) : Res V E :=
  match f k with
  | .ok v => .ok v
  | .error e => .err e

def init {K V E} (c : Cache K V) (keys : List K) : St K V E :=
  { cache := c, thr := keys.map (fun k => { key := k }) }

namespace Fixed

def step {K V E} [DecidableEq K] (cap : Nat) (f : K → Except E V) (s : St K V E) (t : Nat) : St K V E :=
  match s.thr[t]? with
  | none => s
  | some x =>
    match x.pc with
    | .lookup =>                                   -- region 1, atomic under the lock
      match find? x.key s.cache with
      | some v => { cache := erase x.key s.cache ++ [(x.key, v)],
                    thr := s.thr.set t { x with pc := .done, loc := some v, res := some (.ok v) } }
      | none => { s with thr := s.thr.set t { x with pc := .expand } }
    | .expand =>
      match f x.key with
      | .error e => { s with thr := s.thr.set t { x with pc := .done, res := some (.err e) } }
      | .ok v => { s with thr := s.thr.set t { x with pc := .store, loc := some v } }
    | .store =>                                    -- region 2, atomic under the lock
      match x.loc with
      | none => s                                  -- unreachable: `store` is entered with `loc = some _`
      | some v =>
        let c' := put x.key v s.cache
        { cache := if c'.length > cap then c'.drop 1 else c',
          thr := s.thr.set t { x with pc := .done, res := some (.ok v) } }
    | _ => s

def run {K V E} [DecidableEq K] (cap : Nat) (f : K → Except E V) (s : St K V E) (sched : List Nat) : St K V E :=
  sched.foldl (step cap f) s

end Fixed

namespace Legacy

def step {K V E} [DecidableEq K] (cap : Nat) (f : K → Except E V) (s : St K V E) (t : Nat) : St K V E :=
  match s.thr[t]? with
  | none => s
  | some x =>
    match x.pc with
    | .lookup =>                                   -- `cached = _ROUND_KEY_CACHE.get(key)`
      match find? x.key s.cache with
      | some v => { s with thr := s.thr.set t { x with pc := .touch, loc := some v } }
      | none => { s with thr := s.thr.set t { x with pc := .expand } }
    | .touch =>                                    -- `_ROUND_KEY_CACHE.move_to_end(key)`; `return cached`
      match find? x.key s.cache, x.loc with
      | some v', some v => { cache := erase x.key s.cache ++ [(x.key, v')],
                             thr := s.thr.set t { x with pc := .done, res := some (.ok v) } }
      | _, _ => { s with thr := s.thr.set t { x with pc := .done, res := some .keyError } }
    | .expand =>
      match f x.key with
      | .error e => { s with thr := s.thr.set t { x with pc := .done, res := some (.err e) } }
      | .ok v => { s with thr := s.thr.set t { x with pc := .store, loc := some v } }
    | .store =>                                    -- `_ROUND_KEY_CACHE[key] = round_keys`
      match x.loc with
      | none => s
      | some v => { cache := put x.key v s.cache, thr := s.thr.set t { x with pc := .evict } }
    | .evict =>                                    -- `if len(...) > MAX: popitem(last=False)`; `return round_keys`
      match x.loc with
      | none => s
      | some v => { cache := if s.cache.length > cap then s.cache.drop 1 else s.cache,
                    thr := s.thr.set t { x with pc := .done, res := some (.ok v) } }
    | .done => s

def run {K V E} [DecidableEq K] (cap : Nat) (f : K → Except E V) (s : St K V E) (sched : List Nat) : St K V E :=
  sched.foldl (step cap f) s

end Legacy

def allDone {K V E} (s : St K V E) : Bool := s.thr.all (fun x => x.pc == .done)

/-- results of the calls, by thread -/
def results {K V E} (s : St K V E) : List (Option (Res V E)) := s.thr.map (·.res)

/-! ### a cache keyed by a *function of* its input (`_FONT_CACHE` keyed by `keyOf font_bytes`)

`FontFixed.get` is the instance `keyOf = id`.  The generated fact `cacheKeys` says that in the current
source the key expression of every access is the whole (never rebound) parameter of the function. -/
namespace Keyed

def get {K Q P G V} [DecidableEq Q] (keyOf : K → Q) (parse : K → P) (feat : K → P → G → V)
    (c : Cache Q P) (k : K) (gids : G) : V × Cache Q P :=
  match find? (keyOf k) c with
  | some p => (feat k p gids, c)
  | none => let p := parse k; (feat k p gids, c ++ [(keyOf k, p)])

def run {K Q P G V} [DecidableEq Q] (keyOf : K → Q) (parse : K → P) (feat : K → P → G → V)
    (c : Cache Q P) : List (K × G) → Cache Q P
  | [] => c
  | (k, g) :: r => run keyOf parse feat (get keyOf parse feat c k g).2 r

/-- every stored value is the parse of EVERY input that has this cache key -/
def Consistent {K Q P} (keyOf : K → Q) (parse : K → P) (c : Cache Q P) : Prop :=
  ∀ qp ∈ c, ∀ k, keyOf k = qp.1 → qp.2 = parse k

end Keyed

end S2T.CacheConc
