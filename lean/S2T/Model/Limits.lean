/-
Models for the second half of C12: the explicit limits (with the comparison operator that the
translator found at each limit site), which archive members are read / decoded / written, the 7z
`extractall` step before and after the repair, and ODS repeat expansion.
Core Lean only.
-/
namespace S2T.Limits

/-- comparison operator of a limit test, as found in the source by the translator -/
inductive Cmp | gt | ge | lt | le | eq | ne
deriving Repr, DecidableEq

def Cmp.ofString : String → Option Cmp
  | "gt" => some .gt | "ge" => some .ge | "lt" => some .lt | "le" => some .le
  | "eq" => some .eq | "ne" => some .ne | _ => none

def Cmp.eval : Cmp → Int → Int → Bool
  | .gt, a, b => decide (a > b) | .ge, a, b => decide (a ≥ b)
  | .lt, a, b => decide (a < b) | .le, a, b => decide (a ≤ b)
  | .eq, a, b => decide (a = b) | .ne, a, b => decide (a ≠ b)

/-- the operators at the seven limit sites -/
structure Ops where
  rfEnabled : Cmp      -- `max_file_size > 0`
  rfReject : Cmp       -- `file_size > max_file_size`
  szReject : Cmp       -- `archive_size > MAX_7Z_FILE_SIZE`
  zipSkip : Cmp        -- `info.file_size > _config.max_memory_size`
  tarSkip : Cmp        -- `member.size > _config.max_memory_size`
  szSkip : Cmp         -- `file_info.uncompressed > _config.max_memory_size`
  entrySkip : Cmp      -- `len(file_data) > MAX_ARCHIVE_FILE_SIZE`
deriving Repr, DecidableEq

def lookupSite (sites : List (String × String × String × String)) (k : String) : Option (String × String × String) :=
  match sites.find? (·.1 == k) with
  | some (_, r) => some r
  | none => none

/-- build `Ops` from the generated site list; `none` if a site is missing, has an unknown operator,
    or compares other operands than the model expects -/
def Ops.ofSites (sites : List (String × String × String × String)) : Option Ops := do
  let get (k lhs rhs : String) : Option Cmp := do
    let (l, op, r) ← lookupSite sites k
    if l == lhs && r == rhs then Cmp.ofString op else none
  let a ← get "read_file.enabled" "limit" "0"
  let b ← get "read_file.reject" "size" "limit"
  let c ← get "7z.reject" "size" "limit"
  let d ← get "zip.skip" "size" "limit"
  let e ← get "tar.skip" "size" "limit"
  let f ← get "7z.skip" "size" "limit"
  let g ← get "entry.skip" "size" "limit"
  return ⟨a, b, c, d, e, f, g⟩

/-- the operators the documentation promises (`>` everywhere) -/
def Ops.documented : Ops := ⟨.gt, .gt, .gt, .gt, .gt, .gt, .gt⟩

/-- `read_file`: the size check at the first `next()`: `if max_file_size > 0: if file_size > max_file_size: raise` -/
def readFileRejects (o : Ops) (maxFileSize : Int) (size : Nat) : Bool :=
  o.rfEnabled.eval maxFileSize 0 && o.rfReject.eval size maxFileSize

def sevenZipRejects (o : Ops) (max7z : Nat) (archiveSize : Nat) : Bool := o.szReject.eval archiveSize max7z

inductive Kind | zip | tar | sevenZip
deriving Repr, DecidableEq

/-- the per-member size filter (declared size against `_config.max_memory_size`) -/
def memberSkipped (o : Ops) (k : Kind) (limit : Nat) (declared : Nat) : Bool :=
  match k with
  | .zip => o.zipSkip.eval declared limit
  | .tar => o.tarSkip.eval declared limit
  | .sevenZip => o.szSkip.eval declared limit

/-- ZIP / TAR member loop: the declared sizes of the members handed to `zf.read` / `tf.extractfile`
    (only these are decompressed into memory; nothing is written to disk) -/
def membersRead (o : Ops) (k : Kind) (limit : Nat) (declared : List Nat) : List Nat :=
  declared.filter (fun s => !memberSkipped o k limit s)

/-! ### 7z: `szf.extractall(...)` -/

/-- one non-directory entry: declared size and whether the filters kept it (`files_to_process`) -/
structure SzFile where
  declared : Nat
  wanted : Bool
deriving Repr, DecidableEq

/-- a folder = the entries stored in it, in order (a solid folder has several) -/
abbrev SzFolder := List SzFile

structure FolderRun where
  decoded : Option Nat      -- `none`: folder not decoded; `some n`: decoder output bounded by `n` (`none`-bounded = unfixed is modelled as the declared total)
  bounded : Bool            -- whether a `max_length` was passed to the decoder
  written : List Nat        -- declared sizes of the entries written to the temp directory
deriving Repr, DecidableEq

/-- end offset of the last wanted entry (`_needed_output`); `none` when no entry is wanted -/
def neededOutput : SzFolder → Nat → Option Nat → Option Nat
  | [], _, acc => acc
  | f :: rest, off, acc =>
    let off' := off + f.declared
    neededOutput rest off' (if f.wanted then some off' else acc)

/-- `extractall` on one folder.  UNFIXED (`fixed = false`): every folder is decoded without an output
    bound and every entry is written.  FIXED: a folder with no wanted entry is not decoded; otherwise it is
    decoded up to the end of the last wanted entry and only wanted entries are written. -/
def extractFolder (fixed : Bool) (f : SzFolder) : FolderRun :=
  if fixed then
    match neededOutput f 0 none with
    | none => ⟨none, true, []⟩
    | some n => ⟨some n, true, (f.filter (·.wanted)).map (·.declared)⟩
  else ⟨some (f.map (·.declared)).sum, false, f.map (·.declared)⟩

def extractAll (fixed : Bool) (folders : List SzFolder) : List FolderRun := folders.map (extractFolder fixed)

/-- the loop at the end of `extractall` that creates the EMPTY files (entries without a data stream):
    declared sizes (all 0) of the entries created.  FIXED: only the wanted ones. -/
def emptyWritten (fixed : Bool) (es : List SzFile) : List Nat :=
  ((if fixed then es.filter (·.wanted) else es)).map (·.declared)

/-- `files_to_process` marking: an entry is wanted iff it passed the size filter (name filters are a parameter `keep`) -/
def markWanted (o : Ops) (limit : Nat) (declared : Nat) (keep : Bool) : SzFile :=
  ⟨declared, keep && !memberSkipped o .sevenZip limit declared⟩

/-! ### ODS repeat expansion (`_extract_sheet`) -/

structure OdsCell where
  rep : Int          -- `int(cell.get("table:number-columns-repeated", "1"))`
  isNone : Bool      -- typed value is None (empty cell)
  textLen : Nat      -- length of the text content (for the size of the input)
deriving Repr, DecidableEq

structure OdsRow where
  rep : Int          -- `int(row.get("table:number-rows-repeated", "1"))`
  cells : List OdsCell
deriving Repr, DecidableEq

/-- `row_values` of one `table:table-row`: one flag (`typed_value is None`) per materialised cell -/
def rowValues (cells : List OdsCell) : List Bool :=
  cells.flatMap (fun c => if c.isNone ∧ c.rep > 100 then [true] else List.replicate c.rep.toNat c.isNone)

/-- `raw_rows` after the row loop -/
def rawRows (rows : List OdsRow) : List (List Bool) :=
  rows.flatMap (fun r =>
    let rv := rowValues r.cells
    if r.rep > 100 ∧ rv.all id then [rv] else List.replicate r.rep.toNat rv)

/-- trailing all-empty rows removed (`while raw_rows and all(...): raw_rows.pop()`) -/
def trimRows (rows : List (List Bool)) : List (List Bool) :=
  (rows.reverse.dropWhile (fun r => r.all id)).reverse

/-- index + 1 of the last non-empty cell of a row, 0 if none -/
def lastData (row : List Bool) : Nat := (row.reverse.dropWhile id).length

/-- `(number of rows, number of columns)` of `sheet.data` -/
def sheetShape (rows : List OdsRow) : Nat × Nat :=
  let rr := trimRows (rawRows rows)
  (rr.length, (rr.map lastData).foldl max 0)

/-- number of cells of `sheet.data` (every row is padded to the same width) -/
def sheetCells (rows : List OdsRow) : Nat := (sheetShape rows).1 * (sheetShape rows).2

/-- cells materialised in `row_values` lists, before row repetition (which shares the list) and padding -/
def materialised (rows : List OdsRow) : Nat := (rows.map (fun r => (rowValues r.cells).length)).sum

/-- number of decimal digits (`len(str(n))`) -/
def digits (n : Nat) : Nat := if h : n < 10 then 1 else 1 + digits (n / 10)
termination_by n
decreasing_by omega
def intLen (i : Int) : Nat := if i < 0 then 1 + digits i.natAbs else digits i.natAbs

/-- exact byte length of the canonical `content.xml` the harness writes for a sheet (see
    `harness/props/c12.py:_ods_xml`): envelope + per row / per cell tags + the repeat attributes' digits -/
def xmlLen (envelope rowTags emptyCellTags textCellTags : Nat) (rows : List OdsRow) : Nat :=
  envelope + (rows.map (fun r => rowTags + intLen r.rep +
    (r.cells.map (fun c => (if c.isNone then emptyCellTags else textCellTags + c.textLen) + intLen c.rep)).sum)).sum

/-- one row repeated `r` times holding one non-empty one-character cell repeated `c` times -/
def repeatSheet (r c : Nat) : List OdsRow := [⟨r, [⟨c, false, 1⟩]⟩]

/-- a first row of `n` distinct non-empty cells followed by `n` rows of one non-empty cell (no repeat attributes above 1) -/
def staircaseSheet (n : Nat) : List OdsRow :=
  ⟨1, List.replicate n ⟨1, false, 1⟩⟩ :: List.replicate n ⟨1, [⟨1, false, 1⟩]⟩

/-! ### TAR member loop with link members (`_extract_from_tar_optimized`)

A hard-link / symbolic-link entry has its OWN header (size field 0 when written by `tarfile`, but any value can be
forged) while `TarFile.extractfile(link)` follows the link and hands out the bytes of the member it points at.
So the size the loop tests (`member.size`) and the bytes the loop reads are two different things unless the
member-type guard lets only regular members through. -/

inductive TarKind | reg | hardlink | symlink | dir | special
deriving Repr, DecidableEq

def TarKind.name : TarKind → String
  | .reg => "reg" | .hardlink => "hardlink" | .symlink => "symlink" | .dir => "dir" | .special => "special"

def TarKind.ofString : String → Option TarKind
  | "reg" => some .reg | "hardlink" => some .hardlink | "symlink" => some .symlink
  | "dir" => some .dir | "special" => some .special | _ => none

structure TarMember where
  size : Nat               -- `member.size`: the size field of the member's own header
  kind : TarKind           -- `isreg()` ⇔ kind = reg; `islnk()` ⇔ hardlink; `issym()` ⇔ symlink
  delivers : Option Nat    -- `len(tf.extractfile(member).read())`; `none`: extractfile returns None or raises
deriving Repr, DecidableEq

/-- the one fact about `tarfile` the bound needs: a REGULAR member's handle never delivers more than the size in
    the member's own header (a truncated archive delivers less).  Nothing is assumed about links. -/
def TarFaithful (ms : List TarMember) : Prop :=
  ∀ m ∈ ms, m.kind = .reg → ∀ n, m.delivers = some n → n ≤ m.size

/-- the documented member-type guard `if not member.isreg(): continue` -/
def onlyReg : TarKind → Bool
  | .reg => true | _ => false

/-- the guard as the translator found it: (kind name, gets past the guard); a kind missing from the table counts
    as accepted (worst case) -/
def acceptOfTable (t : List (String × Bool)) (k : TarKind) : Bool :=
  match t.find? (·.1 == k.name) with
  | some (_, b) => b
  | none => true

/-- position of an event in the generated event list (`events.length` when absent) -/
def eventBefore (events : List String) (a b : String) : Bool :=
  events.contains a && events.contains b && decide (events.idxOf a < events.idxOf b)

/-- the member loop: lengths of the byte strings `extractfile(member).read()` hands to the process, in order.
    `sizeTestFirst = false` models a loop that reads before it tests the size. -/
def tarLoopDelivered (o : Ops) (accept : TarKind → Bool) (sizeTestFirst : Bool) (limit : Nat) (ms : List TarMember) : List Nat :=
  ms.filterMap (fun m =>
    if accept m.kind && !(sizeTestFirst && memberSkipped o .tar limit m.size) then m.delivers else none)

/-- uncompressed payload of the archive: the sizes of the regular members -/
def tarPayload (ms : List TarMember) : Nat := ((ms.filter (·.kind = .reg)).map (·.size)).sum

/-! ### ODS rows with `table:covered-table-cell` children

The row loop is `for cell in row.findall("table:table-cell", NS)`: covered cells (the cells hidden by a merged
neighbour) are not visited at all, whatever their `table:number-columns-repeated` says. -/

inductive OdsChild
  | cell (c : OdsCell)
  | covered (rep : Int)
deriving Repr, DecidableEq

def OdsChild.cell? : OdsChild → Option OdsCell
  | .cell c => some c
  | .covered _ => none

def OdsChild.coveredRep? : OdsChild → Option Int
  | .cell _ => none
  | .covered r => some r

structure OdsRowC where
  rep : Int
  children : List OdsChild
deriving Repr, DecidableEq

/-- the `table:table-cell` children, in order (what `findall` returns) -/
def childCells (cs : List OdsChild) : List OdsCell := cs.filterMap (·.cell?)

def OdsRowC.toRow (r : OdsRowC) : OdsRow := ⟨r.rep, childCells r.children⟩

def sheetShapeC (rows : List OdsRowC) : Nat × Nat := sheetShape (rows.map (·.toRow))
def sheetCellsC (rows : List OdsRowC) : Nat := sheetCells (rows.map (·.toRow))
def materialisedC (rows : List OdsRowC) : Nat := materialised (rows.map (·.toRow))

/-- byte length of the harness's canonical `content.xml` with covered cells -/
def xmlLenC (envelope rowTags emptyCellTags textCellTags coveredTags : Nat) (rows : List OdsRowC) : Nat :=
  xmlLen envelope rowTags emptyCellTags textCellTags (rows.map (·.toRow)) +
  (rows.map (fun r => ((r.children.filterMap (·.coveredRep?)).map (fun n => coveredTags + intLen n)).sum)).sum

end S2T.Limits
