/-
Model of sharepoint2text/parsing/extractors/util/zip_bomb.py (+ the constructor of
zip_context.ZipContext), function by function.  Core Lean only.

* A `zipfile.ZipInfo` is reduced to the three fields the guard reads:
  `(file_size, compress_size, is_dir())`; `CdRecord` is the whole record with every other field and
  `Entry.ofRecord` the projection (`is_dir()` = the name ends with '/').  Sizes are `Nat`: they are unsigned fields of the
  ZIP central directory (32 bit, or 64 bit in the ZIP64 extra field); `int(x or 0)` is the
  identity on them.
* A ratio limit is the *exact* rational value `num/den` of the Python number
  (`float.as_integer_ratio()` / `int.as_integer_ratio()`); `size / compressed > limit` is decided
  exactly by cross-multiplication.  (`S2T.Lemmas.ZipBomb` relates this to the float quotient.)
* `zf.infolist()` raising is `none`; `zipfile.ZipFile(file_like)` itself (third party) is a
  parameter `ZipOpen` of the stream-level functions: what it returns and where it leaves the
  stream are arbitrary.
-/
namespace S2T.ZipBomb

structure Entry where
  fileSize : Nat
  compressSize : Nat
  isDir : Bool
  deriving DecidableEq, Repr

/-- One central-directory record as `zipfile` hands it out (the attributes of a `ZipInfo`): the member
    name, the two sizes the guard reads, and EVERY other field a guard could consult.  The guard's model
    `validate` works on `Entry`; `Entry.ofRecord` says which part of a record it may depend on. -/
structure CdRecord where
  filename : List Char
  fileSize : Nat
  compressSize : Nat
  /-- low byte: MS-DOS attributes (bit 0x10 = directory); high 16 bits: unix `st_mode` -/
  externalAttr : Nat
  internalAttr : Nat
  createSystem : Nat
  createVersion : Nat
  extractVersion : Nat
  flagBits : Nat
  compressType : Nat
  crc : Nat
  dosDate : Nat
  dosTime : Nat
  volume : Nat
  extra : List Nat
  comment : List Nat
  deriving DecidableEq, Repr

/-- the property's notion of a *directory entry*: the member NAME ends with `'/'`
    (CPython `ZipInfo.is_dir()`: `self.filename.endswith('/')`) — nothing else of the record. -/
def nameIsDir (name : List Char) : Bool := name.getLast? == some '/'

/-- what the guard sees of a record -/
def Entry.ofRecord (r : CdRecord) : Entry := ⟨r.fileSize, r.compressSize, nameIsDir r.filename⟩

/-- exact value `num/den` of a ratio limit -/
structure Ratio where
  num : Nat
  den : Nat
  deriving DecidableEq, Repr

/-- `ZipBombLimits` -/
structure Limits where
  maxEntries : Nat
  maxTotal : Nat
  maxSingle : Nat
  totalRatio : Ratio
  entryRatio : Ratio
  deriving DecidableEq, Repr

/-- which `raise ExtractionZipBombError(...)` statement fired (source order) -/
inductive Reason
  | inspectFailed | tooManyEntries | entryTooLarge | entryZeroCompressed | entryRatio
  | totalTooLarge | totalZeroCompressed | totalRatio
  deriving DecidableEq, Repr

instance {α} [DecidableEq α] : DecidableEq (Except Reason α)
  | .ok a, .ok b => if h : a = b then isTrue (by rw [h]) else isFalse (by intro h'; cases h'; exact h rfl)
  | .error a, .error b => if h : a = b then isTrue (by rw [h]) else isFalse (by intro h'; cases h'; exact h rfl)
  | .ok _, .error _ => isFalse (by intro h; cases h)
  | .error _, .ok _ => isFalse (by intro h; cases h)

/-- `a / b > L` for `b > 0`, decided exactly: `a/b > num/den ⇔ a·den > num·b`. -/
def ratioExceeds (a b : Nat) (L : Ratio) : Bool := decide (L.num * b < a * L.den)

/-- one iteration of `for info in infos:` — new running totals or the raise. -/
def step (lim : Limits) (tu tc : Nat) (e : Entry) : Except Reason (Nat × Nat) :=
  if e.isDir then .ok (tu, tc)                                  -- `continue`
  else if e.fileSize > lim.maxSingle then .error .entryTooLarge
  else if e.fileSize > 0 && e.compressSize == 0 then .error .entryZeroCompressed
  else if e.fileSize > 0 && ratioExceeds e.fileSize e.compressSize lim.entryRatio then .error .entryRatio
  else if tu + e.fileSize > lim.maxTotal then .error .totalTooLarge
  else .ok (tu + e.fileSize, tc + e.compressSize)

def loop (lim : Limits) : Nat → Nat → List Entry → Except Reason (Nat × Nat)
  | tu, tc, [] => .ok (tu, tc)
  | tu, tc, e :: es =>
    match step lim tu tc e with
    | .error r => .error r
    | .ok (tu', tc') => loop lim tu' tc' es

/-- the block after the loop (`if total_uncompressed > 0:`) -/
def finish (lim : Limits) (tu tc : Nat) : Except Reason Unit :=
  if tu > 0 then
    if tc == 0 then .error .totalZeroCompressed
    else if ratioExceeds tu tc lim.totalRatio then .error .totalRatio
    else .ok ()
  else .ok ()

/-- `validate_zipfile(zf, limits=lim)`; the argument is the outcome of `zf.infolist()`. -/
def validate (lim : Limits) (infolist : Option (List Entry)) : Except Reason Unit :=
  match infolist with
  | none => .error .inspectFailed
  | some infos =>
    if infos.length > lim.maxEntries then .error .tooManyEntries
    else
      match loop lim 0 0 infos with
      | .error r => .error r
      | .ok (tu, tc) => finish lim tu tc

/-! ## Stream level: `open_zipfile`, `validate_zip_bytesio`, `ZipContext.__init__` -/

/-- the observable part of a `BytesIO`: its position (reads never change the content) -/
structure Stream where
  pos : Nat
  deriving DecidableEq, Repr

def Stream.seek (_ : Stream) (n : Nat) : Stream := { pos := n }
def Stream.tell (s : Stream) : Nat := s.pos

/-- behaviour of `zipfile.ZipFile(file_like, "r")` on the stream (third party, a parameter):
    `infolist = none` — the constructor raised (`BadZipFile`, …);
    `some none` — constructed, but `infolist()` raises; `some (some es)` — the central directory.
    `posAfter` is wherever zipfile leaves the stream position. -/
structure ZipOpen where
  infolist : Option (Option (List Entry))
  posAfter : Nat
  deriving Repr

inductive Err
  | zipOpen                 -- whatever `zipfile.ZipFile(...)` raised, propagated unchanged
  | bomb (r : Reason)       -- ExtractionZipBombError
  deriving DecidableEq, Repr

/-- observable events, in program order -/
inductive Event
  | seek (n : Nat) | construct | validate (ok : Bool) | close | read
  deriving DecidableEq, Repr

/-- an open, validated container: the only value reads can be issued on -/
structure Handle where
  entries : Option (List Entry)
  deriving Repr

structure Run (α : Type) where
  result : Except Err α
  stream : Stream
  trace : List Event

/-- `open_zipfile(file_like, limits=lim)` -/
def openZipfile (lim : Limits) (s : Stream) (z : ZipOpen) : Run Handle :=
  let s1 := s.seek 0
  match z.infolist with
  | none => { result := .error .zipOpen, stream := s1, trace := [.seek 0] }
  | some infos =>
    let s2 : Stream := { pos := z.posAfter }
    match validate lim infos with
    | .error r =>                         -- `except Exception: zf.close(); raise`
      { result := .error (.bomb r), stream := s2, trace := [.seek 0, .construct, .validate false, .close] }
    | .ok () =>
      { result := .ok { entries := infos }, stream := s2, trace := [.seek 0, .construct, .validate true] }

/-- `validate_zip_bytesio(file_like, limits=lim)` -/
def validateZipBytesio (lim : Limits) (s : Stream) (z : ZipOpen) : Run Unit :=
  let originalPos := s.tell
  let s1 := s.seek 0
  match z.infolist with
  | none =>                                -- constructor raises; `finally: seek(original_pos)`
    { result := .error .zipOpen, stream := s1.seek originalPos, trace := [.seek 0, .seek originalPos] }
  | some infos =>
    let s2 : Stream := { pos := z.posAfter }
    match validate lim infos with
    | .error r =>
      { result := .error (.bomb r), stream := s2.seek originalPos,
        trace := [.seek 0, .construct, .validate false, .close, .seek originalPos] }
    | .ok () =>
      { result := .ok (), stream := s2.seek originalPos,
        trace := [.seek 0, .construct, .validate true, .close, .seek originalPos] }

/-- `ZipContext.__init__` followed by `k` member reads through the context and `close()`.
    Reads exist only on the handle `open_zipfile` returned. -/
def zipContextSession (lim : Limits) (s : Stream) (z : ZipOpen) (reads : Nat) : Run Unit :=
  let r := openZipfile lim (s.seek 0) z
  match r.result with
  | .error e => { result := .error e, stream := r.stream, trace := .seek 0 :: r.trace }
  | .ok _ =>
    { result := .ok (), stream := r.stream,
      trace := .seek 0 :: r.trace ++ List.replicate reads .read ++ [.close] }

/-! ## Runtime monitor: per-container event log -/

/-- events logged by the harness; `k` identifies the container (digest of its bytes) -/
inductive Mon
  | construct (k : Nat) | validated (k : Nat) (ok : Bool) | read (k : Nat)
  deriving DecidableEq, Repr

/-- acceptor: every member read of container `k` comes after a successful validation of `k`. -/
def validatedBeforeRead : List Nat → List Mon → Bool
  | _, [] => true
  | okd, .construct _ :: r => validatedBeforeRead okd r
  | okd, .validated k true :: r => validatedBeforeRead (k :: okd) r
  | okd, .validated _ false :: r => validatedBeforeRead okd r
  | okd, .read k :: r => okd.contains k && validatedBeforeRead okd r

/-! ## Call-site inventory (closed world of "ways a container gets opened") -/

inductive SiteKind
  | rawZipFile        -- zipfile.ZipFile(...)
  | loadWorkbook      -- openpyxl.load_workbook(...)
  | openZipfile       -- zip_bomb.open_zipfile(...)          (validating)
  | validateBytesio   -- zip_bomb.validate_zip_bytesio(...)  (validating)
  | zipContext        -- ZipContext(...) or a subclass       (validating via open_zipfile)
  deriving DecidableEq, Repr

structure Site where
  file : List Char
  func : List Char
  line : Nat
  kind : SiteKind
  /-- an unconditional call of a validating function precedes the site on every path of its function -/
  dominated : Bool
  /-- for raw opens: the very next use of the new object is `validate_zipfile(zf, …)` inside a
      `try`/`with` of the same function (shape of `open_zipfile` / `validate_zip_bytesio`) -/
  guardFollows : Bool
  /-- number of references to the enclosing function anywhere in the package (0 = dead code) -/
  funcRefs : Nat
  /-- every call of the enclosing function is itself dominated by a validating call -/
  callersDominated : Bool
  deriving DecidableEq, Repr

end S2T.ZipBomb
