import S2T.Model.C02OdfXml
/-
C02 (part 'sheets'): the constants the ODP / ODS / XLSX text models take as parameters.  The instances are GENERATED
from the current source by tools/gen/c02_sheets.py (`S2T.Gen.C02Sheets.odp / ods / xlsx`).
Core Lean only (the driver links this file).
-/
namespace S2T.C02.Sheets
open S2T.Tok S2T.OdfText

/-- odp_extractor.py + `OdpSlide.text_combined` / `OdpContent.iterate_units` / `_join_unit_text` -/
structure OdpT where
  ws : List Nat                -- code points c with chr(c).isspace()
  fmt : Fmt                    -- what `_get_text_recursive` hands to `element_text`
  pTag : Str
  frameTag : Str               -- page.findall("draw:frame", NS)
  textBoxTag : Str
  notesTag : Str               -- page.find("presentation:notes", NS)
  pageTag : Str                -- body.findall("draw:page", NS)
  styleName : Str
  svgX : Str
  svgY : Str
  titleSub : Str               -- "Title" in style_name
  titleExact : Str             -- style_name == "TitleText"
  bodySub : Str
  bodyExact : Str
  slideSep : Str               -- "\n".join(parts) in text_combined
  unitSep : Str                -- "\n".join(parts) in iterate_units
  joinSep : Str                -- "\n".join(...) in _join_unit_text
  deriving Repr

def OdpT.isWs (T : OdpT) (c : Char) : Bool := isWsTab T.ws c

/-- ods_extractor.py + `OdsContent.iterate_units` / `_join_unit_text` -/
structure OdsT where
  ws : List Nat
  fmt : Fmt
  pTag : Str
  tableTag : Str
  rowTag : Str
  cellTag : Str
  nameAttr : Str
  repRows : Str
  repCols : Str
  valueType : Str
  kinds : List (List Str × Str)   -- value-type names ↦ the attribute that carries the typed value, in source order
  cellCap : Nat                   -- `typed_value is None and cell_repeat > cellCap`
  rowCap : Nat                    -- `row_repeat > rowCap and all(...)`
  paraSep : Str                   -- "\n".join(text_parts)
  cellSep : Str                   -- "\t".join(row_texts)
  lineSep : Str                   -- "\n".join(text_lines)
  unitSep : Str                   -- sheet.name + "\n" + sheet.text.strip()
  unitStrip : Bool                -- (...).strip() around the unit text
  joinSep : Str
  deriving Repr

def OdsT.isWs (T : OdsT) (c : Char) : Bool := isWsTab T.ws c

/-- xlsx_extractor.py `_read_sheet_data` / `_format_sheet_as_text` + `XlsxContent.iterate_units` -/
structure XlsxT where
  ws : List Nat
  unnamed : Str                   -- f"Unnamed: {i}"
  colSep : Str                    -- " ".join(...)
  rowSep : Str                    -- "\n".join(...)
  unitSep : Str
  unitStrip : Bool
  joinSep : Str
  deriving Repr

def XlsxT.isWs (T : XlsxT) (c : Char) : Bool := isWsTab T.ws c

end S2T.C02.Sheets
