import S2T.Model.Iface
/-!
# C04 — several images of one result: who owns which stream object (`io.BytesIO` identity)

`S2T.Iface.getBytes` models ONE image: its stored stream is rewound and handed out.  A caller of the common
interface holds the streams of SEVERAL images at the same time (collect `get_bytes()` of every image first, read —
or close — them afterwards, in any order).  Whether those streams are independent is a statement about object
identity, so the model needs a heap:

* a `World` maps object ids to `io.BytesIO` objects (`Cell`: content, position, closed?); ids `≥ next` are unused;
* an image's payload is `bytes` (every `get_bytes()` allocates a fresh object), nothing, or a REFERENCE to a stored
  stream object (`get_bytes()` rewinds and returns that very object);
* the caller's operations on the handles it collected: `read` (position found, bytes delivered; moves the position
  to the end) and `close` (any later operation on that object — also `seek(0)` inside a later `get_bytes()` of an
  image that stores the same object — raises `ValueError`).

Core Lean only.  Theorems: `S2T/Props/C04_Streams.lean`.
-/
namespace S2T.Iface

/-- an `io.BytesIO` object -/
structure Cell where
  content : List Nat
  pos : Nat
  closed : Bool := false
deriving DecidableEq, Repr

/-- the heap of stream objects: id ↦ object; ids `≥ next` have not been allocated -/
structure World where
  cell : Nat → Cell
  next : Nat

def World.empty : World := ⟨fun _ => ⟨[], 0, false⟩, 0⟩

def World.put (w : World) (i : Nat) (c : Cell) : World := { w with cell := fun j => if j = i then c else w.cell j }

/-- `io.BytesIO(v)` : a new object -/
def World.alloc (w : World) (v : List Nat) : Nat × World :=
  (w.next, { cell := fun j => if j = w.next then ⟨v, 0, false⟩ else w.cell j, next := w.next + 1 })

/-- payload of an image object, by reference -/
inductive PayloadRef where
  | noData                      -- `data is None`
  | bytes (b : List Nat)        -- immutable `bytes` field
  | stream (id : Nat)           -- the stored `io.BytesIO` object with this identity
deriving DecidableEq, Repr

structure ImageRef where
  payload : PayloadRef
  sizeBytes : Nat
deriving DecidableEq, Repr

/-- `get_bytes()`: the id of the object handed out (or `none`: `seek(0)` on a closed stream raised `ValueError`) -/
def getBytesW (w : World) (im : ImageRef) : Option Nat × World :=
  match im.payload with
  | .noData => let (i, w') := w.alloc []; (some i, w')
  | .bytes b => let (i, w') := w.alloc b; (some i, w')
  | .stream id =>
    if (w.cell id).closed then (none, w)
    else (some id, w.put id { w.cell id with pos := 0 })

/-- the caller collects `get_bytes()` of every image, in order -/
def collect : World → List ImageRef → List (Option Nat) × World
  | w, [] => ([], w)
  | w, im :: ims =>
    let (h, w1) := getBytesW w im
    let (hs, w2) := collect w1 ims
    (h :: hs, w2)

/-- what the caller observes when it reads one handle: position found and bytes delivered; `none` = raised -/
def readCell (w : World) (h : Nat) : Option (Nat × List Nat) × World :=
  let c := w.cell h
  if c.closed then (none, w)
  else (some (c.pos, c.content.drop c.pos), w.put h { c with pos := max c.pos c.content.length })

/-- the caller reads the collected handles one after the other (in the order given) -/
def readAll : World → List Nat → List (Option (Nat × List Nat))
  | _, [] => []
  | w, h :: hs => let (o, w') := readCell w h; o :: readAll w' hs

/-- `stream.close()` -/
def closeCell (w : World) (h : Nat) : World := w.put h { w.cell h with closed := true }

/-- the stored stream objects the images refer to -/
def streamIds : List ImageRef → List Nat
  | [] => []
  | im :: ims => match im.payload with
    | .stream id => id :: streamIds ims
    | _ => streamIds ims

/-- what an image's payload is, in a world -/
def payloadContent (w : World) (im : ImageRef) : List Nat :=
  match im.payload with
  | .noData => []
  | .bytes b => b
  | .stream id => (w.cell id).content

/-- how a constructor site obtains the payload of the image it builds -/
inductive Source where
  | none                         -- no payload (placeholder for an unreadable / external picture)
  | fresh (v : List Nat)         -- `data=io.BytesIO(v), size_bytes=len(v)`  or  `data=v` for a `bytes` class
  | cached (key : Nat) (v : List Nat)   -- the defect class: `data=cache[key]` — one object per key, made on first use
deriving DecidableEq, Repr

/-- the images a loop over `srcs` builds (kind = payload kind of the class), with the per-document cache of the
`cached` form: `(key, object id)` pairs -/
def buildImages (kind : PayloadKind) : World → List (Nat × Nat) → List Source → List ImageRef × World
  | w, _, [] => ([], w)
  | w, cache, s :: ss =>
    match s with
    | .none => let (ims, w') := buildImages kind w cache ss; (⟨.noData, 0⟩ :: ims, w')
    | .fresh v =>
      match kind with
      | .stream =>
        let (i, w1) := w.alloc v
        let (ims, w') := buildImages kind w1 cache ss
        (⟨.stream i, v.length⟩ :: ims, w')
      | _ => let (ims, w') := buildImages kind w cache ss; (⟨.bytes v, v.length⟩ :: ims, w')
    | .cached key v =>
      match kind with
      | .stream =>
        match cache.find? (·.1 == key) with
        | some e => let (ims, w') := buildImages kind w cache ss; (⟨.stream e.2, ((w.cell e.2).content).length⟩ :: ims, w')
        | none =>
          let (i, w1) := w.alloc v
          let (ims, w') := buildImages kind w1 ((key, i) :: cache) ss
          (⟨.stream i, v.length⟩ :: ims, w')
      | _ => let (ims, w') := buildImages kind w cache ss; (⟨.bytes v, v.length⟩ :: ims, w')

def isCached : Source → Bool
  | .cached _ _ => true
  | _ => false

/-- inventory type: how a constructor site of a stream-holding image class obtains the stream object it stores -/
inductive StreamOrigin where
  | noPayload                  -- neither payload nor size passed
  | freshObject                -- `io.BytesIO(<expr>)` written at the site: a new object for every image built
  | immutable                  -- the class stores `bytes`; `get_bytes()` wraps them in a new object per call
  | other (why : String)       -- a name / attribute / subscript / call: the object may be stored in several images
deriving DecidableEq, Repr

structure StreamSite where
  file : String
  line : Nat
  cls : String
  origin : StreamOrigin
deriving Repr

/-- inventory type: what `get_bytes()` of an image class does, read from its AST -/
inductive GetBytesForm where
  | wrapBytes          -- `return io.BytesIO(self.f)` (optionally via a local + `seek(0)`, `None` ↦ empty stream)
  | rewindStored       -- `if self.f is None: return io.BytesIO()` ; `self.f.seek(0)` ; `return self.f`
  | other (why : String)
deriving DecidableEq, Repr

end S2T.Iface
