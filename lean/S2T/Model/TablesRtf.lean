import S2T.Model.Tables
/-!
Model of the RTF table extraction (property C13):
`ms_legacy/rtf_extractor.py` — `_RtfParser._extract_tables`, `_save_table`, `_extract_table_cells`,
`_strip_rtf_simple`, `_remove_ignorable_groups`, `_combine_surrogates` and the compiled patterns they use.

The text is a `List Char` (what `_decode_rtf` hands over; a decoded Python string holds no surrogates, which is
what a Lean `Char` cannot hold either).  Every regular expression is modelled by a *matcher for exactly that
pattern*: a function that, given the text from the current position on, says whether the pattern matches there
and how many characters the (greedy, leftmost) match takes.  `subst` is `pattern.sub` for patterns that never
match the empty string, `findStarts` is `[m.start() for m in pattern.finditer(text)]` for the `\\word\b`
patterns (their matches cannot overlap: a match holds one backslash, at its start).  The pattern texts the
matchers were written for are listed in `expectedPatterns`; the generator emits the pattern texts and flags of the
current source and a theorem compares the two lists on every run.

Parameters (`Params`, generated from the source): the code points ≥ 128 that `\w` matches (for `\b`), the
ordered `SPECIAL_CHARS` table, and the two literals of the row-grouping heuristic (`> 100`, `> 20`).

Not modelled (stated as assumptions of the check): decimal digits other than ASCII in `\uN` / control-word
parameters, `int()` of more than 4300 digits, `str.lower()` changing the length of the text (U+0130).
-/
namespace S2T.Tables.Rtf
open S2T.HtmlSkip (Str)
open S2T.Tables

structure Params where
  /-- inclusive ranges of the code points ≥ 128 matched by `\w` -/
  wordHi : List (Nat × Nat)
  /-- `SPECIAL_CHARS.items()` in dict order -/
  specials : List (Str × Str)
  /-- `row_start - last_end > rawGap` -/
  rawGap : Nat
  /-- `len(between) > textGap` -/
  textGap : Nat

/-! ## character classes of the patterns -/

def isDigit (c : Char) : Bool := '0' ≤ c && c ≤ '9'
def isAsciiAlpha (c : Char) : Bool := ('a' ≤ c && c ≤ 'z') || ('A' ≤ c && c ≤ 'Z')
/-- `[a-z]` under `re.IGNORECASE` on `str`: the 52 ASCII letters and U+0130, U+0131, U+017F, U+212A -/
def isCtlAlpha (c : Char) : Bool :=
  isAsciiAlpha c || c.toNat == 0x130 || c.toNat == 0x131 || c.toNat == 0x17F || c.toNat == 0x212A
def isHex (c : Char) : Bool := isDigit c || ('a' ≤ c && c ≤ 'f') || ('A' ≤ c && c ≤ 'F')
/-- `\w` -/
def isWord (P : Params) (c : Char) : Bool :=
  if c.toNat < 128 then isAsciiAlpha c || isDigit c || c == '_'
  else P.wordHi.any (fun r => r.1 ≤ c.toNat && c.toNat ≤ r.2)

def hexVal (c : Char) : Nat :=
  if isDigit c then c.toNat - 48 else if 'a' ≤ c && c ≤ 'f' then c.toNat - 87 else c.toNat - 55

def decVal (ds : Str) : Nat := ds.foldl (fun acc c => acc * 10 + (c.toNat - 48)) 0

/-! ## `pattern.sub` / `finditer` / `split` -/

/-- `pattern.sub(repl, s)`; `m t` = `some (replacement, n)` when the pattern matches at the head of `t` taking
    `n ≥ 1` characters.  First argument: characters of a match still to be skipped. -/
def subst (m : Str → Option (Str × Nat)) : Nat → Str → Str
  | _, [] => []
  | k + 1, _ :: r => subst m k r
  | 0, c :: r =>
    match m (c :: r) with
    | some (rep, len) => rep ++ subst m (len - 1) r
    | none => c :: subst m 0 r

/-- does `\\<kw>\b` match at the head (kw ends in a word character) -/
def kwAt (P : Params) (kw : Str) (s : Str) : Bool :=
  match s with
  | '\\' :: r =>
    kw.isPrefixOf r &&
      (match r.drop kw.length with
       | [] => true
       | c :: _ => !isWord P c)
  | _ => false

/-- `[m.start() for m in re.finditer(r"\\<kw>\b", text)]`, positions counted from `i` -/
def findStarts (P : Params) (kw : Str) : Nat → Str → List Nat
  | _, [] => []
  | i, c :: r => if kwAt P kw (c :: r) then i :: findStarts P kw (i + 1) r else findStarts P kw (i + 1) r

/-- `re.split(r"\\<kw>\b", s)`: `skip` characters of a match still to drop, `cur` the piece being collected (reversed) -/
def splitKw (P : Params) (kw : Str) : Nat → Str → Str → List Str
  | _, cur, [] => [cur.reverse]
  | k + 1, cur, _ :: r => splitKw P kw k cur r
  | 0, cur, c :: r =>
    if kwAt P kw (c :: r) then cur.reverse :: splitKw P kw kw.length [] r
    else splitKw P kw 0 (c :: cur) r

/-- `text[a:b]` for `a ≤ b` -/
def slice (s : Str) (a b : Nat) : Str := (s.drop a).take (b - a)

/-! ## `_remove_ignorable_groups` -/

def asciiLower (c : Char) : Char := if 'A' ≤ c && c ≤ 'Z' then Char.ofNat (c.toNat + 32) else c

def ignorablePrefixes : List Str := ["{\\pict".toList, "{\\object".toList, "{\\*".toList]

def startsIgnorable (s : Str) : Bool := ignorablePrefixes.any (fun p => p.isPrefixOf (s.map asciiLower))

/-- `depth` = 0 outside an ignorable group, otherwise the brace depth inside it -/
def removeIgnorable : Nat → Str → Str
  | _, [] => []
  | 0, c :: r =>
    if c == '{' && startsIgnorable (c :: r) then removeIgnorable 1 r else c :: removeIgnorable 0 r
  | d + 1, c :: r =>
    if c == '{' then removeIgnorable (d + 2) r
    else if c == '}' then removeIgnorable d r
    else removeIgnorable (d + 1) r

/-! ## the patterns of `_strip_rtf_simple` -/

/-- one `\\u(-?\d+)\??` at the head: (UTF-16 code unit `int(group 1) & 0xFFFF`, length) -/
def uniAt (s : Str) : Option (Nat × Nat) :=
  match s with
  | '\\' :: 'u' :: r =>
    let neg := r.head? == some '-'
    let r1 := if neg then r.drop 1 else r
    let ds := r1.takeWhile isDigit
    if ds.isEmpty then none
    else
      let q := (r1.drop ds.length).head? == some '?'
      let v := decVal ds % 65536
      let unit := if neg then (65536 - v) % 65536 else v
      some (unit, 2 + (if neg then 1 else 0) + ds.length + (if q then 1 else 0))
  | _ => none

def isHighSur (u : Nat) : Bool := 0xD800 ≤ u && u ≤ 0xDBFF
def isLowSur (u : Nat) : Bool := 0xDC00 ≤ u && u ≤ 0xDFFF

/-- `_RE_UNICODE.sub(chr(int & 0xFFFF))` followed by `_combine_surrogates`: a high surrogate escape directly
    followed by a low surrogate escape is one character, any other surrogate becomes U+FFFD -/
def uniM (s : Str) : Option (Str × Nat) :=
  match uniAt s with
  | none => none
  | some (u, n) =>
    if isHighSur u then
      match uniAt (s.drop n) with
      | some (l, n2) =>
        if isLowSur l then some ([Char.ofNat (0x10000 + (u - 0xD800) * 1024 + (l - 0xDC00))], n + n2)
        else some ([Char.ofNat 0xFFFD], n)
      | none => some ([Char.ofNat 0xFFFD], n)
    else if isLowSur u then some ([Char.ofNat 0xFFFD], n)
    else some ([Char.ofNat u], n)

/-- `\\'([0-9a-fA-F]{2})` -/
def hexEscM (s : Str) : Option (Str × Nat) :=
  match s with
  | '\\' :: '\'' :: a :: b :: _ => if isHex a && isHex b then some ([Char.ofNat (hexVal a * 16 + hexVal b)], 4) else none
  | _ => none

/-- `\\<re.escape(kw)>(?:(?:\s+)|(?=\\)|(?=\{)|(?=\})|$)` -/
def specialM (kw ch : Str) (s : Str) : Option (Str × Nat) :=
  match s with
  | '\\' :: r =>
    if kw.isPrefixOf r then
      let rest := r.drop kw.length
      let n := (rest.takeWhile isPySpace).length
      if n > 0 then some (ch, 1 + kw.length + n)
      else match rest with
        | [] => some (ch, 1 + kw.length)
        | c :: _ => if c == '\\' || c == '{' || c == '}' then some (ch, 1 + kw.length) else none
    else none
  | _ => none

/-- `\\[a-z]+(-?\d+)?\s?` with IGNORECASE -/
def ctlM (s : Str) : Option (Str × Nat) :=
  match s with
  | '\\' :: r =>
    let name := r.takeWhile isCtlAlpha
    if name.isEmpty then none
    else
      let r1 := r.drop name.length
      let neg := r1.head? == some '-'
      let ds := (if neg then r1.drop 1 else r1).takeWhile isDigit
      let plen := if ds.isEmpty then 0 else ds.length + (if neg then 1 else 0)
      let r2 := r1.drop plen
      let sp := match r2 with | c :: _ => isPySpace c | [] => false
      some ([], 1 + name.length + plen + (if sp then 1 else 0))
  | _ => none

/-- a run `cls+` at the head replaced by `rep` when it is at least `least` long -/
def runM (cls : Char → Bool) (least : Nat) (rep : Str) (s : Str) : Option (Str × Nat) :=
  let n := (s.takeWhile cls).length
  if n ≥ least && n > 0 then some (rep, n) else none

/-- `[ \t]+` → " " -/
def multiSpace : Str → Str := subst (runM (fun c => c == ' ' || c == '\t') 1 [' ']) 0
/-- `\n{3,}` → "\n\n" -/
def multiNl : Str → Str := subst (runM (fun c => c == '\n') 3 ['\n', '\n']) 0
/-- `[0-9a-fA-F]{64,}` → "" -/
def hexRun : Str → Str := subst (runM isHex 64 []) 0
/-- `[ \t\f\v]+` → " " -/
def cellSpace : Str → Str := subst (runM (fun c => c == ' ' || c == '\t' || c.toNat == 12 || c.toNat == 11) 1 [' ']) 0

/-- ` *\n *` → "\n" -/
def cellNlM (s : Str) : Option (Str × Nat) :=
  let a := (s.takeWhile (· == ' ')).length
  match s.drop a with
  | '\n' :: r => some (['\n'], a + 1 + (r.takeWhile (· == ' ')).length)
  | _ => none
def cellNl : Str → Str := subst cellNlM 0

def uniEsc : Str → Str := subst uniM 0
def hexEsc : Str → Str := subst hexEscM 0
def specials (P : Params) (s : Str) : Str := P.specials.foldl (fun acc kc => subst (specialM kc.1 kc.2) 0 acc) s
def ctlWords : Str → Str := subst ctlM 0
def removeBraces (s : Str) : Str := s.filter (fun c => !(c == '{' || c == '}'))

/-- `_strip_rtf_simple` -/
def stripSimple (P : Params) (s : Str) : Str :=
  pyStrip (multiNl (multiSpace (removeBraces (ctlWords (specials P (hexEsc (uniEsc (removeIgnorable 0 s))))))))

/-! ## `_extract_table_cells`, `_save_table`, `_extract_tables` -/

def sCell : Str := "cell".toList
def sTrowd : Str := "trowd".toList
def sRow : Str := "row".toList

/-- text of one cell from the piece in front of its `\cell` -/
def cellText (P : Params) (part : Str) : Str :=
  pyStrip (multiNl (cellNl (cellSpace (hexRun (stripSimple P part)))))

/-- `_extract_table_cells` -/
def extractCells (P : Params) (rowContent : Str) : List Str :=
  ((splitKw P sCell 0 [] rowContent).dropLast).map (cellText P)

/-- `_save_table` (the grid): every row padded with "" to the longest row -/
def saveTable (rows : Grid) : Grid :=
  let w := rows.foldl (fun m r => max m r.length) 0
  rows.map (fun r => r ++ List.replicate (w - r.length) [])

/-- `(trowd_pos, rpos, text[trowd_pos:rpos])` for every `\trowd` that has a `\row` end behind it -/
def tableRows (P : Params) (text : Str) : List (Nat × Nat × Str) :=
  let ends := (findStarts P sRow 0 text).map (· + 4)
  (findStarts P sTrowd 0 text).filterMap (fun p =>
    (ends.find? (fun e => e > p)).map (fun e => (p, e, slice text p e)))

structure GState where
  cur : Grid          -- current_rows
  lastEnd : Nat       -- last_end (read only when cur is non-empty)
  out : List Grid     -- self.tables

/-- one turn of the grouping loop -/
def groupStep (P : Params) (text : Str) (st : GState) (row : Nat × Nat × Str) : GState :=
  let st1 : GState :=
    if !st.cur.isEmpty && row.1 - st.lastEnd > P.rawGap then
      let between := pyStrip (stripSimple P (slice text st.lastEnd row.1))
      if between.length > P.textGap then { st with cur := [], out := st.out ++ [saveTable st.cur] } else st
    else st
  let cells := extractCells P row.2.2
  { cur := if cells.isEmpty then st1.cur else st1.cur ++ [cells], lastEnd := row.2.1, out := st1.out }

/-- `_extract_tables`: the grids of `self.tables` -/
def extractTables (P : Params) (text : Str) : List Grid :=
  let st := (tableRows P text).foldl (groupStep P text) { cur := [], lastEnd := 0, out := [] }
  if st.cur.isEmpty then st.out else st.out ++ [saveTable st.cur]

/-! ## the pattern texts the matchers above were written for (name, pattern, flags without re.UNICODE) -/

def expectedPatterns : List (String × String × Nat) := [
  ("_RE_TROWD", "\\\\trowd\\b", 0),
  ("_RE_ROW", "\\\\row\\b", 0),
  ("cell-split", "\\\\cell\\b", 0),
  ("_RE_UNICODE", "\\\\u(-?\\d+)\\??", 0),
  ("_RE_HEX_ESCAPE", "\\\\'([0-9a-fA-F]{2})", 0),
  ("special-char", "\\\\KW(?:(?:\\s+)|(?=\\\\)|(?=\\{)|(?=\\})|$)", 0),
  ("_RE_CONTROL_WORD", "\\\\[a-z]+(-?\\d+)?\\s?", 2),
  ("_RE_MULTI_SPACE", "[ \\t]+", 0),
  ("_RE_MULTI_NEWLINE", "\\n{3,}", 0),
  ("_RE_HEX_RUN", "[0-9a-fA-F]{64,}", 0),
  ("_RE_CELL_SPACE", "[ \\t\\f\\v]+", 0),
  ("_RE_CELL_NEWLINE", " *\\n *", 0)]

end S2T.Tables.Rtf
