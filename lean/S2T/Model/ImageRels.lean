import S2T.Model.ImageParts
/-!
# C14 — which relationship of a relationships part the image path follows

A relationships part lists relationships of many kinds, in any order.  The image extraction of XLSX and DOCX picks
"its" relationships with a substring test on the Type URI:

* XLSX `_extract_images_from_zip`, first loop: `for rel in rels: if "drawing" in rel["type"]: sheet_to_drawing[k] = …; break`
  — the FIRST relationship that passes the test is the sheet's drawing;
* XLSX, second loop: `if "image" in rel["type"]: rid_to_image[rel["id"]] = …` — a dictionary Id ↦ Target of the
  relationships that pass, later entries replace earlier ones;
* DOCX `_extract_images_from_context`: `if "image" not in rel_type.lower(): continue`.

The specification side: the KIND of a relationship is the last path segment of its Type URI, compared exactly
(ECMA-376 Part 2 §9.3: relationship types are compared as case-sensitive URIs).
-/
namespace S2T.Images
open S2T.Spec.Opc

/-- Python `needle in s` for `str` -/
def hasSub (needle : Str) : Str → Bool
  | [] => needle.isEmpty
  | c :: cs => needle.isPrefixOf (c :: cs) || hasSub needle cs

structure Rel where
  id : Str
  type : Str
  target : Str
  deriving DecidableEq, Repr

/-- `"<needle>" in rel["type"]`, with `lowered`: `… in rel["type"].lower()` -/
structure RelGuard where
  needle : Str
  lowered : Bool
  deriving DecidableEq, Repr

def RelGuard.holds (g : RelGuard) (type : Str) : Bool :=
  hasSub g.needle (if g.lowered then lowerAscii type else type)

/-- first loop of XLSX: Target of the first relationship that passes the guard (`break`) -/
def pickFirstTarget (g : RelGuard) (rels : List Rel) : Option Str :=
  (rels.find? (fun r => g.holds r.type)).map (·.target)

/-- `d = {}; for rel in rels: if guard: d[rel["id"]] = rel["target"]` then `d.get(id)`: the LAST passing relationship
    with that Id -/
def ridLookup (g : RelGuard) (rels : List Rel) (id : Str) : Option Str :=
  ((rels.filter (fun r => g.holds r.type)).reverse.find? (fun r => r.id == id)).map (·.target)

/-! ## specification: kind of a relationship -/

/-- last path segment of the Type URI -/
def relKind (type : Str) : Str := (type.reverse.takeWhile (· ≠ '/')).reverse

def specFirstTarget (kind : Str) (rels : List Rel) : Option Str :=
  (rels.find? (fun r => relKind r.type == kind)).map (·.target)

def specRidLookup (kind : Str) (rels : List Rel) (id : Str) : Option Str :=
  ((rels.filter (fun r => relKind r.type == kind)).reverse.find? (fun r => r.id == id)).map (·.target)

/-! ## inventory of the standard (TRUSTED transcription): namespaces of relationship types and the kinds of
    relationship a worksheet / drawing / main document part may be the source of (ECMA-376 Part 1 §11.3, §12.3, §14.2,
    Part 4 strict namespace, and the Microsoft Office extension namespaces Excel / Word write) -/

def relNamespaces : List Str := [
  "http://schemas.openxmlformats.org/officeDocument/2006/relationships",
  "http://purl.oclc.org/ooxml/officeDocument/relationships",
  "http://schemas.microsoft.com/office/2006/relationships",
  "http://schemas.microsoft.com/office/2007/relationships",
  "http://schemas.microsoft.com/office/2011/relationships",
  "http://schemas.microsoft.com/office/2017/10/relationships"].map String.toList

def sheetRelKinds : List Str := [
  "drawing", "vmlDrawing", "comments", "threadedComment", "hyperlink", "printerSettings", "table", "tableSingleCells",
  "pivotTable", "queryTable", "oleObject", "package", "control", "ctrlProp", "customProperty", "image", "slicer",
  "timeline", "wsSortMap", "activeXControlBinary"].map String.toList

def drawingRelKinds : List Str := [
  "image", "chart", "chartEx", "chartUserShapes", "hyperlink", "diagramData", "diagramLayout", "diagramQuickStyle",
  "diagramColors", "diagramDrawing", "video", "audio", "media", "hdphoto", "oleObject", "package", "customXml",
  "vmlDrawing", "slide"].map String.toList

def documentRelKinds : List Str := [
  "image", "styles", "stylesWithEffects", "settings", "webSettings", "fontTable", "theme", "numbering", "footnotes",
  "endnotes", "header", "footer", "comments", "commentsExtended", "commentsIds", "people", "hyperlink", "customXml",
  "glossaryDocument", "oleObject", "package", "chart", "diagramData", "diagramLayout", "diagramQuickStyle",
  "diagramColors", "aFChunk", "attachedTemplate", "subDocument", "frame", "video", "hdphoto", "control", "vbaProject",
  "keyMapCustomizations"].map String.toList

def relType (ns kind : Str) : Str := ns ++ '/' :: kind

/-- a Type URI of the inventory: namespace `/` kind -/
def InInventory (kinds : List Str) (type : Str) : Prop := ∃ ns ∈ relNamespaces, ∃ k ∈ kinds, type = relType ns k

/-- the guard is EXACT for `kind` on the inventory: on every namespace × kind the substring test is true exactly for
    `kind`, and the last segment of the URI is the kind -/
def guardExactOn (g : RelGuard) (kind : Str) (kinds : List Str) : Bool :=
  relNamespaces.all fun ns => kinds.all fun k =>
    (g.holds (relType ns k) == (k == kind)) && (relKind (relType ns k) == k)

def guardOf (d : String × Bool) (o : Option (String × Bool)) : RelGuard :=
  let p := o.getD d
  ⟨p.1.toList, p.2⟩

end S2T.Images
