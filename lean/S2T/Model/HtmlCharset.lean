/-!
# Encoding prescan of `read_html` (html_extractor.py)

`_RE_CHARSET_ATTR_BYTES = rb'<meta[^>]+charset=["\']?([^"\'\s>]+)'` (IGNORECASE), `search`ed in the first 8192 bytes of the
file BEFORE any parsing.  Bytes are modelled as `Char`s below 256 (the harness sends the latin-1 decoding of the bytes).
`re.search` = leftmost start; `[^>]+` is greedy with backtracking = the LAST `charset=` inside the run of non-`>`
characters that follows `<meta` (at least one character in between) after which a value can be read.
-/
namespace S2T.HtmlCharset

def lower (c : Char) : Char := if 'A' ≤ c ∧ c ≤ 'Z' then Char.ofNat (c.toNat + 32) else c

/-- `s` starts with `p`, ASCII case-insensitively (`p` is given in lower case) -/
def startsCI : List Char → List Char → Bool
  | [], _ => true
  | _ :: _, [] => false
  | a :: p, b :: s => a == lower b && startsCI p s

def isWs (c : Char) : Bool := c == ' ' || c == '\t' || c == '\n' || c == '\r' || c == '\x0b' || c == '\x0c'
def valChar (c : Char) : Bool := !(c == '"' || c == '\'' || c == '>' || isWs c)

/-- `["']?([^"'\s>]+)` at `s` -/
def valueAt (s : List Char) : Option (List Char) :=
  let s' := match s with
    | '"' :: r => r
    | '\'' :: r => r
    | _ => s
  let v := s'.takeWhile valChar
  if v.isEmpty then none else some v

def kwCharset : List Char := "charset=".toList
def kwMeta : List Char := "<meta".toList

/-- positions inside the run of non-`>` characters, left to right; the last one where `charset=value` matches wins -/
def scan : List Char → Option (List Char) → Option (List Char)
  | [], best => best
  | c :: r, best =>
    if c == '>' then best
    else
      let best' := if startsCI kwCharset (c :: r) then
          (match valueAt ((c :: r).drop 8) with
           | some v => some v
           | none => best)
        else best
      scan r best'

/-- `re.search`: leftmost `<meta` at which the rest of the pattern matches -/
def search : List Char → Option (List Char)
  | [] => none
  | c :: r =>
    if startsCI kwMeta (c :: r) then
      match (c :: r).drop 5 with
      | x :: r' =>
        if x == '>' then search r
        else match scan r' none with
          | some v => some v
          | none => search r
      | [] => search r
    else search r

/-- what `read_html` takes as the declared encoding (none = keep utf-8) -/
def sniff (file : List Char) : Option (List Char) := search (file.take 8192)

end S2T.HtmlCharset
