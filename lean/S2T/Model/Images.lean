import S2T.Spec.Opc
/-
Model of the image side of the extractors (property C14).  Core Lean only (the driver links it).

* §1  reference resolution: `resolve_part_target` (util/zip_utils.py) and its callers
      `_normalize_relative_path` (pptx), `resolve_part_target("word", …)` (docx),
      `_resolve_drawing_path` / `_resolve_image_path` (xlsx), `_EpubContext.resolve_href`,
      `resolve_odf_href` (open_office/_shared.py) — plus the functions they replaced (`…Old`), kept
      for the counterexample theorems.
* §2  content types: `_CONTENT_TYPE_MAP.get(ext, f"image/{ext}")` (docx, pptx), `_get_content_type` (xlsx).
* §3  the image loops with their running `image_counter` (one function per extractor loop).
* §4  dimension sniffers: `_get_image_pixel_dimensions` (docx = xlsx copy; pptx copy) and
      `util/image_utils.get_image_dimensions` / `get_jpeg_dimensions`.
* §5  the two views of the result objects (`iterate_units()` / `iterate_images()` / `iterate_tables()`).

Strings are `List Char`, bytes are `List Nat` (< 256 is a side condition of the theorems, not of the model).
A package is `Str → Option Nat`: member name ↦ identity of its content.  `zipfile.ZipFile.read` returning
the member's bytes unchanged is assumed (DESIGN §4.5) — "bit-exact" in the model is "same content id";
the correspondence compares the real bytes.
-/
namespace S2T.Images
open S2T.Spec.Opc (Str splitSlash joinSlash dot dotdot)

/-! ## §1 reference resolution -/

/-- `s.startswith("/")` -/
def startsSlash (s : Str) : Bool := s.head? == some '/'

/-- the loop shared by `resolve_part_target`, `resolve_href` (EPUB):
    `for part in parts: if part == "..": (if resolved: resolved.pop()) elif part and part != ".": resolved.append(part)`;
    `res` is `resolved` reversed. -/
def popLoop : List Str → List Str → List Str
  | res, [] => res.reverse
  | res, p :: r =>
    if p = dotdot then (match res with | [] => popLoop [] r | _ :: t => popLoop t r)
    else if p ≠ [] ∧ p ≠ dot then popLoop (p :: res) r
    else popLoop res r

/-- `zip_utils.resolve_part_target(source_dir, target)` -/
def resolvePartTarget (sourceDir target : Str) : Str :=
  if startsSlash target then joinSlash (popLoop [] (splitSlash target))
  else joinSlash (popLoop [] (splitSlash (sourceDir ++ '/' :: target)))

/-- `"/".join(path.rsplit("/", 1)[:-1])` (pptx) = `"/".join(path.split("/")[:-1])` (xlsx): the directory of a part name -/
def dirOf (path : Str) : Str := joinSlash (splitSlash path).dropLast

/-- pptx: `_normalize_relative_path(slide_dir, target)` with `slide_dir` computed from the slide path -/
def pptxImagePath (slidePath target : Str) : Str := resolvePartTarget (dirOf slidePath) target
/-- docx: `resolve_part_target("word", target)` -/
def docxImagePath (target : Str) : Str := resolvePartTarget "word".toList target
/-- xlsx: `_resolve_drawing_path(target)` -/
def xlsxDrawingPath (target : Str) : Str := resolvePartTarget "xl/worksheets".toList target
/-- xlsx: `_resolve_image_path(target, drawing_path)` -/
def xlsxImagePath (target drawingPath : Str) : Str := resolvePartTarget (dirOf drawingPath) target

/-- EPUB `resolve_href(href)`; `opfDir` is `""` or ends with `/` (`_parse_container`). -/
def epubResolve (opfDir href : Str) : Str :=
  joinSlash (popLoop [] (splitSlash ((if startsSlash href then [] else opfDir) ++ href)))

/-- the loop of `resolve_odf_href`: `none` = the reference leaves the package (`return href`) -/
def odfLoop : List Str → List Str → Option (List Str)
  | res, [] => some res.reverse
  | res, p :: r =>
    if p = dotdot then (match res with | [] => none | _ :: t => odfLoop t r)
    else if p ≠ [] ∧ p ≠ dot then odfLoop (p :: res) r
    else odfLoop res r

/-- `open_office/_shared.resolve_odf_href(href)` -/
def odfResolve (href : Str) : Str :=
  if startsSlash href then href
  else match odfLoop [] (splitSlash href) with
    | some segs => joinSlash segs
    | none => href

/-! ### the functions these replaced (source before the `fix:` commits), for the counterexamples -/

/-- `[part for part in target.split("/") if part and part != ".."]` -/
def dropDotDot (segs : List Str) : List Str := segs.filter (fun p => p ≠ [] ∧ p ≠ dotdot)

/-- `str.lstrip("/")` -/
def lstripSlash (s : Str) : Str := s.dropWhile (· = '/')

/-- the `../` branch loop of the old `_normalize_relative_path` (keeps "." segments) -/
def popLoopOld : List Str → List Str → List Str
  | res, [] => res.reverse
  | res, p :: r =>
    if p = dotdot then (match res with | [] => popLoopOld [] r | _ :: t => popLoopOld t r)
    else if p ≠ [] then popLoopOld (p :: res) r
    else popLoopOld res r

/-- pptx `_normalize_relative_path` before the fix -/
def pptxNormalizeOld (baseDir target : Str) : Str :=
  if startsSlash target then
    baseDir ++ '/' :: joinSlash (dropDotDot (splitSlash (lstripSlash target)))
  else if (splitSlash target).contains dotdot then
    if "../".toList.isPrefixOf target then
      joinSlash (popLoopOld [] (splitSlash (baseDir ++ '/' :: target)))
    else baseDir ++ '/' :: joinSlash (dropDotDot (splitSlash target))
  else baseDir ++ '/' :: target

/-- docx `"word/" + target` before the fix -/
def docxImagePathOld (target : Str) : Str := "word/".toList ++ target

/-- xlsx `_resolve_drawing_path` before the fix -/
def xlsxDrawingPathOld (target : Str) : Str :=
  if startsSlash target then target.drop 1
  else if "..".toList.isPrefixOf target then "xl/".toList ++ target.drop 3
  else "xl/worksheets/".toList ++ target

/-- `s.rsplit("/", 1)[-1]` -/
def baseName (s : Str) : Str := (splitSlash s).getLast?.getD []

/-- xlsx `_resolve_image_path` before the fix -/
def xlsxImagePathOld (target : Str) : Str :=
  if startsSlash target then target.drop 1 else "xl/media/".toList ++ baseName target

/-- EPUB `resolve_href` before the fix -/
def epubResolveOld (opfDir href : Str) : Str :=
  if startsSlash href then href.drop 1 else opfDir ++ href

/-! ## §2 content types -/

/-- ASCII `str.lower()` (the correspondence feeds ASCII extensions; other code points are out of the model) -/
def lowerAscii (s : Str) : Str := s.map (fun c => if 'A' ≤ c ∧ c ≤ 'Z' then Char.ofNat (c.toNat + 32) else c)

/-- `s.rsplit(".", 1)[-1]`: the characters after the last '.', the whole string if there is none -/
def afterLastDot (s : Str) : Str := (s.reverse.takeWhile (· ≠ '.')).reverse

def lookupStr (k : Str) : List (Str × Str) → Option Str
  | [] => none
  | (k', v) :: r => if k = k' then some v else lookupStr k r

/-- docx / pptx: `ext = target.rsplit(".", 1)[-1].lower(); _CONTENT_TYPE_MAP.get(ext, f"image/{ext}")` -/
def ctypeByTarget (table : List (Str × Str)) (target : Str) : Str :=
  let ext := lowerAscii (afterLastDot target)
  (lookupStr ext table).getD ("image/".toList ++ ext)

/-- xlsx `_get_content_type(filename)` -/
def ctypeXlsx (table : List (Str × Str)) (filename : Str) : Str :=
  let ext := if filename.contains '.' then lowerAscii (afterLastDot filename) else []
  (lookupStr ext table).getD "image/unknown".toList

/-! ## §3 image loops -/

structure Img where
  number : Nat                 -- image_index / ImageMetadata.image_number
  unit : Option Nat            -- ImageMetadata.unit_number
  content : Option Nat         -- content id of the member whose bytes are returned; none = entry without data
  ref : Str                    -- the reference text it was produced from
  deriving DecidableEq, Repr

abbrev Pkg := Str → Option Nat
/-- what an anchor contributes when it contributes: (content, reference) -/
abbrev Entry := Option Nat × Str

/-- `for anchor in …:` with `image_counter += 1` exactly when an image object is appended -/
def loopUnit {α} (cl : α → Option Entry) (unit : Option Nat) : Nat → List α → List Img × Nat
  | c, [] => ([], c)
  | c, a :: r =>
    match cl a with
    | some (content, ref) =>
      let res := loopUnit cl unit (c + 1) r
      ({ number := c + 1, unit := unit, content := content, ref := ref } :: res.1, res.2)
    | none => loopUnit cl unit c r

/-- outer loop, counter returned by the inner function (ODP `_extract_slide`, ODS `_extract_sheet`,
    XLSX `image_counter` shared by all sheets) -/
def loopDoc {α} (cl : Nat → α → Option Entry) (unitOf : Nat → Option Nat) : Nat → Nat → List (List α) → List (List Img)
  | _, _, [] => []
  | k, c, u :: r =>
    let res := loopUnit (cl k) (unitOf k) c u
    res.1 :: loopDoc cl unitOf (k + 1) res.2 r

/-- outer loop, counter advanced by `len(unit.images)` (fixed PPTX `read_pptx`, fixed PDF `read_pdf`) -/
def loopDocByLen {α} (cl : Nat → α → Option Entry) (unitOf : Nat → Option Nat) : Nat → Nat → List (List α) → List (List Img)
  | _, _, [] => []
  | k, c, u :: r =>
    let imgs := (loopUnit (cl k) (unitOf k) c u).1
    imgs :: loopDocByLen cl unitOf (k + 1) (c + imgs.length) r

/-- outer loop with the counter restarted on every unit (PPTX / PDF before the fix) -/
def loopDocRestart {α} (cl : Nat → α → Option Entry) (unitOf : Nat → Option Nat) : Nat → List (List α) → List (List Img)
  | _, [] => []
  | k, u :: r => (loopUnit (cl k) (unitOf k) 0 u).1 :: loopDocRestart cl unitOf (k + 1) r

/-- a member read: the entry an internal reference contributes when the member exists -/
def readEntry (pkg : Pkg) (member ref : Str) : Option Entry := (pkg member).map (fun id => (some id, ref))

/-- `href.startswith("http")` -/
def isHttp (href : Str) : Bool := "http".toList.isPrefixOf href

/-! ### PPTX — `_process_slide_from_context` picture branch + `read_pptx` slide loop.
    An anchor is the `Target` of the relationship its `a:blip/@r:embed` names (`none`: no blip, no
    `r:embed`, or an id that is not in the slide's relationships); it carries its slide's part name. -/
def pptxClassify (pkg : Pkg) (a : Str × Option Str) : Option Entry :=
  match a.2 with
  | none => none
  | some t => readEntry pkg (pptxImagePath a.1 t) t

def pptxExtract (pkg : Pkg) (slides : List (List (Str × Option Str))) : List (List Img) :=
  loopDocByLen (fun _ => pptxClassify pkg) some 1 0 slides
def pptxExtractOld (pkg : Pkg) (slides : List (List (Str × Option Str))) : List (List Img) :=
  loopDocRestart (fun _ => pptxClassify pkg) some 1 slides

/-! ### PDF — `_extract_image_bytes` + `read_pdf` page loop.  A candidate is an image XObject painted by the
    page (content id = its decoded stream); `_extract_image` raising is outside the model. -/
def pdfClassify (a : Nat × Str) : Option Entry := some (some a.1, a.2)
def pdfExtract (pages : List (List (Nat × Str))) : List (List Img) :=
  loopDocByLen (fun _ => pdfClassify) some 1 0 pages
def pdfExtractOld (pages : List (List (Nat × Str))) : List (List Img) :=
  loopDocRestart (fun _ => pdfClassify) some 1 pages

/-! ### ODP — `_extract_image` / `_extract_slide` / `read_odp`; ODS — `_extract_images` / `read_ods`.
    An anchor is the `xlink:href` of a frame's `draw:image` (`""`: no image / no href). -/
def odfClassify (pkg : Pkg) (href : Str) : Option Entry :=
  if href = [] then none
  else if isHttp href then some (none, href)             -- "External image reference": an entry without data
  else readEntry pkg (odfResolve href) href

def odpExtract (pkg : Pkg) (slides : List (List Str)) : List (List Img) :=
  loopDoc (fun _ => odfClassify pkg) some 1 0 slides
/-- ODS images carry `unit_name=None`; the sheet is the list they are stored in -/
def odsExtract (pkg : Pkg) (sheets : List (List Str)) : List (List Img) :=
  loopDoc (fun _ => odfClassify pkg) (fun _ => none) 1 0 sheets

/-- ODS `_extract_images` before the fix: the counter moved for every frame with an href, found or not -/
def odsUnitOld (pkg : Pkg) : Nat → List Str → List Img × Nat
  | c, [] => ([], c)
  | c, href :: r =>
    if href = [] then odsUnitOld pkg c r
    else
      let res := odsUnitOld pkg (c + 1) r
      match (if isHttp href then some (none, href) else readEntry pkg href href : Option Entry) with
      | some (content, ref) => ({ number := c + 1, unit := none, content := content, ref := ref } :: res.1, res.2)
      | none => res
def odsExtractOld (pkg : Pkg) : Nat → List (List Str) → List (List Img)
  | _, [] => []
  | c, u :: r => let res := odsUnitOld pkg c u; res.1 :: odsExtractOld pkg res.2 r

/-! ### XLSX — `_extract_images_from_zip`.  Sheet k's drawing is found through
    `xl/worksheets/_rels/sheet{k}.xml.rels` (position, not the workbook relationship — see the known finding);
    an anchor is (anchor kind = index in `ANCHOR_TYPES`, target of the embedded relationship or none). -/
def xlsxClassify (pkg : Pkg) (drawingPath : Str) (a : Nat × Option Str) : Option Entry :=
  match a.2 with
  | none => none
  | some t => readEntry pkg (xlsxImagePath t drawingPath) t

/-- `sheets[k]` = (drawing part of sheet k or none, its anchors in the order of the drawing part);
    a drawing part that is not in the package is skipped (`if drawing_path not in namelist: continue`) -/
def xlsxUnits (pkg : Pkg) (sheets : List (Option Str × List (Nat × Option Str))) : List (List (Str × Nat × Option Str)) :=
  sheets.map fun s => match s.1 with
    | none => []
    | some d => if (pkg d).isSome then s.2.map (fun a => (d, a)) else []

def xlsxExtract (pkg : Pkg) (sheets : List (Option Str × List (Nat × Option Str))) : List (List Img) :=
  loopDoc (fun _ (a : Str × Nat × Option Str) => xlsxClassify pkg a.1 a.2) (fun _ => none) 1 0 (xlsxUnits pkg sheets)

/-- before the fix: `for anchor_type in ANCHOR_TYPES: for anchor in drawing_root.iter(anchor_type)` — three passes;
    the anchor kind is its index in `ANCHOR_TYPES` -/
def xlsxPasses (as : List (Nat × Option Str)) : List (Nat × Option Str) :=
  as.filter (·.1 = 0) ++ as.filter (·.1 = 1) ++ as.filter (·.1 = 2)
def xlsxExtractOld (pkg : Pkg) (sheets : List (Option Str × List (Nat × Option Str))) : List (List Img) :=
  xlsxExtract pkg (sheets.map fun s => (s.1, xlsxPasses s.2))

/-! ### DOCX — `_extract_images_from_context`: one image per *relationship* of an image type.
    A relationship is (Id, type contains "image", Target); `bodyIds` lists, without repetition, the `r:embed` ids of
    the drawings in the order they occur in the body paragraphs (`image_body_order`).
    `sorted(rels.items(), key=lambda item: image_body_order.get(item[0], len(image_body_order)))` is a stable sort
    on keys that are distinct for anchored relationships and equal for the others, i.e. the anchored relationships
    in body order followed by the rest in the order of the relationships part (relationship ids are dict keys, hence unique). -/
def docxOrdered (rels : List (Str × Bool × Str)) (bodyIds : List Str) : List (Str × Bool × Str) :=
  bodyIds.filterMap (fun id => rels.find? (fun r => r.1 == id)) ++ rels.filter (fun r => !bodyIds.contains r.1)

def docxClassify (pkg : Pkg) (rel : Str × Bool × Str) : Option Entry :=
  if rel.2.1 then readEntry pkg (docxImagePath rel.2.2) rel.2.2 else none
def docxExtract (pkg : Pkg) (rels : List (Str × Bool × Str)) (bodyIds : List Str) : List Img :=
  (loopUnit (docxClassify pkg) none 0 (docxOrdered rels bodyIds)).1
/-- before fix-08: in the order of the relationships part -/
def docxExtractOld (pkg : Pkg) (rels : List (Str × Bool × Str)) : List Img :=
  (loopUnit (docxClassify pkg) none 0 rels).1

/-! ### EPUB — `_extract_images`: one image per manifest item whose media type starts with `image/`. -/
def epubClassify (pkg : Pkg) (opfDir : Str) (item : Bool × Str) : Option Entry :=
  if item.1 then readEntry pkg (epubResolve opfDir item.2) item.2 else none
def epubExtract (pkg : Pkg) (opfDir : Str) (items : List (Bool × Str)) : List Img :=
  (loopUnit (epubClassify pkg opfDir) none 0 items).1

/-! ### ODT second pass (frames without text box) and ODG — de-duplicated by href text. -/
def dedupLoop (cl : Str → Option Entry) : List Str → Nat → List Str → List Img
  | _, _, [] => []
  | seen, c, href :: r =>
    if seen.contains href then dedupLoop cl seen c r
    else match cl href with
      | some (content, ref) =>
        { number := c + 1, unit := none, content := content, ref := ref } :: dedupLoop cl (href :: seen) (c + 1) r
      | none => dedupLoop cl seen c r

/-- ODT: `processed_hrefs` only grows when an image object is appended -/
def odtExtract (pkg : Pkg) (hrefs : List Str) : List Img := dedupLoop (odfClassify pkg) [] 0 hrefs

/-- ODG: every new non-empty href is marked processed and numbered; a missing member still yields an entry without data -/
def odgClassify (pkg : Pkg) (href : Str) : Option Entry :=
  if href = [] then none
  else if isHttp href then some (none, href)
  else some (pkg (odfResolve href), href)
def odgExtract (pkg : Pkg) (hrefs : List Str) : List Img := dedupLoop (odgClassify pkg) [] 0 hrefs

/-! ### RTF — `_extract_images`: `enumerate(_RE_PICT.finditer(text), 1)`; a picture is (page it starts on, content id). -/
def rtfLoop : Nat → List (Nat × Nat) → List Img
  | _, [] => []
  | c, p :: r => { number := c + 1, unit := some p.1, content := some p.2, ref := [] } :: rtfLoop (c + 1) r
def rtfExtract (picts : List (Nat × Nat)) : List Img := rtfLoop 0 picts

/-! ## §4 dimension sniffers -/

abbrev Bytes := List Nat

/-- `int.from_bytes(b, "big")` -/
def beInt (b : Bytes) : Nat := b.foldl (fun acc x => acc * 256 + x) 0
/-- `int.from_bytes(b, "little")` -/
def leInt : Bytes → Nat
  | [] => 0
  | x :: r => x + 256 * leInt r
/-- `int.from_bytes(b, "little", signed=True)` for a 4-byte slice, then `abs` -/
def absSigned32 (v : Nat) : Nat := if v < 2147483648 then v else 4294967296 - v
/-- `struct.unpack("<i", …)` of a 4-byte value -/
def signed32 (v : Nat) : Int := if v < 2147483648 then (v : Int) else (v : Int) - 4294967296
/-- `data[a:b]` -/
def slice (d : Bytes) (a b : Nat) : Bytes := (d.drop a).take (b - a)
/-- `x or None` -/
def orNone (x : Nat) : Option Nat := if x = 0 then none else some x

def pngSig : Bytes := [0x89, 0x50, 0x4E, 0x47, 0x0D, 0x0A, 0x1A, 0x0A]
def gif87 : Bytes := [0x47, 0x49, 0x46, 0x38, 0x37, 0x61]
def gif89 : Bytes := [0x47, 0x49, 0x46, 0x38, 0x39, 0x61]

/-- the JPEG marker walk of the docx/xlsx copy, on the suffix `l = image_data[i:]`
    (`i + 4 <= size` ⇔ `4 ≤ l.length`; every access is relative to `i`). -/
def jpegScanA (sof stop : List Nat) (l : Bytes) : Option Nat × Option Nat :=
  match h : l with
  | b0 :: b1 :: b2 :: b3 :: rest =>
    if b0 ≠ 0xFF then jpegScanA sof stop (b1 :: b2 :: b3 :: rest)
    else if stop.contains b1 then (none, none)
    else
      let length := b2 * 256 + b3
      if length < 2 then (none, none)
      else if sof.contains b1 ∧ 2 + length ≤ l.length then
        (orNone (beInt (slice l 7 9)), orNone (beInt (slice l 5 7)))
      else jpegScanA sof stop (l.drop (2 + length))
  | _ => (none, none)
termination_by l.length
decreasing_by
  all_goals simp_wf
  all_goals (subst h; simp only [List.length_cons]; omega)

/-- the pptx copy: a SOF marker whose segment is cut short ends the walk -/
def jpegScanB (sof stop : List Nat) (l : Bytes) : Option Nat × Option Nat :=
  match h : l with
  | b0 :: b1 :: b2 :: b3 :: rest =>
    if b0 ≠ 0xFF then jpegScanB sof stop (b1 :: b2 :: b3 :: rest)
    else if stop.contains b1 then (none, none)
    else
      let length := b2 * 256 + b3
      if length < 2 then (none, none)
      else if sof.contains b1 then
        (if 2 + length ≤ l.length then (orNone (beInt (slice l 7 9)), orNone (beInt (slice l 5 7))) else (none, none))
      else jpegScanB sof stop (l.drop (2 + length))
  | _ => (none, none)
termination_by l.length
decreasing_by
  all_goals simp_wf
  all_goals (subst h; simp only [List.length_cons]; omega)

/-- `_get_image_pixel_dimensions(image_data)`; `scan` is the JPEG walk of the copy at hand -/
def sniffWith (scan : Bytes → Option Nat × Option Nat) (d : Bytes) : Option Nat × Option Nat :=
  if d = [] then (none, none)
  else if pngSig.isPrefixOf d ∧ 24 ≤ d.length then
    (orNone (beInt (slice d 16 20)), orNone (beInt (slice d 20 24)))
  else if (d.take 6 = gif87 ∨ d.take 6 = gif89) ∧ 10 ≤ d.length then
    (orNone (leInt (slice d 6 8)), orNone (leInt (slice d 8 10)))
  else if d.take 2 = [0x42, 0x4D] ∧ 26 ≤ d.length then
    (orNone (absSigned32 (leInt (slice d 18 22))), orNone (absSigned32 (leInt (slice d 22 26))))
  else if [0xFF, 0xD8].isPrefixOf d then scan (d.drop 2)
  else (none, none)

/-- docx and xlsx copy -/
def sniffA (sof stop : List Nat) (d : Bytes) : Option Nat × Option Nat := sniffWith (jpegScanA sof stop) d
/-- pptx copy -/
def sniffB (sof stop : List Nat) (d : Bytes) : Option Nat × Option Nat := sniffWith (jpegScanB sof stop) d

/-- `ImageMetadata.width`: `w if w is not None and w > 0 else None` (Docx/Pptx/XlsxImage.get_metadata) -/
def metaDim (x : Option Nat) : Option Nat := x.bind orNone

/-! ### `util/image_utils.get_image_dimensions(data, image_type)` — PNG / BMP / GIF branches
    (`struct.unpack` on the exact slices; lengths are guarded by the `len(data) >=` tests).
    `kind`: 0 png, 1 jpeg/jpg, 2 bmp, 3 gif.  BMP width is the signed field itself (not `abs`), hence `Int`. -/
def utilDims (jpeg : Bytes → Option Nat × Option Nat) (kind : Nat) (d : Bytes) : Option Int × Option Int :=
  if kind = 0 ∧ 24 ≤ d.length then
    (if slice d 12 16 = [0x49, 0x48, 0x44, 0x52] then (some (beInt (slice d 16 20) : Int), some (beInt (slice d 20 24) : Int)) else (none, none))
  else if kind = 1 ∧ 4 ≤ d.length then ((jpeg d).1.map Int.ofNat, (jpeg d).2.map Int.ofNat)
  else if kind = 2 ∧ 26 ≤ d.length then
    (if d.take 2 = [0x42, 0x4D] then
       (some (signed32 (leInt (slice d 18 22))), some (absSigned32 (leInt (slice d 22 26)) : Int))
     else (none, none))
  else if kind = 3 ∧ 10 ≤ d.length then (some (leInt (slice d 6 8) : Int), some (leInt (slice d 8 10) : Int))
  else (none, none)

/-- `get_jpeg_dimensions`, on the suffix `l = data[offset:]`: `offset < len(data) - 9` ⇔ `10 ≤ l.length`
    (the subtraction is on Python ints: for `len(data) < 9` the bound is negative and the loop does not run). -/
def utilJpegScan (sof : List Nat) (l : Bytes) : Option Nat × Option Nat :=
  match h : l with
  | b0 :: b1 :: b2 :: b3 :: rest =>
    if l.length < 10 then (none, none)
    else if b0 ≠ 0xFF then utilJpegScan sof (b1 :: b2 :: b3 :: rest)
    else if b1 = 0xFF then utilJpegScan sof (b1 :: b2 :: b3 :: rest)
    else if sof.contains b1 then (some (beInt (slice l 7 9)), some (beInt (slice l 5 7)))
    else utilJpegScan sof (l.drop (2 + (b2 * 256 + b3)))
  | _ => (none, none)
termination_by l.length
decreasing_by
  all_goals simp_wf
  all_goals (subst h; simp only [List.length_cons]; omega)

def utilJpeg (sof : List Nat) (d : Bytes) : Option Nat × Option Nat := utilJpegScan sof (d.drop 2)

/-! ## §5 views -/

/-- a page / slide / sheet as the result object stores it -/
structure UnitStore (I T : Type) where
  images : List I
  tables : List T

/-- `iterate_units()` of PdfContent / PptxContent / OdpContent: one unit per stored page / slide with
    `images=list(x.images)`, `tables=[TableData(data=t) for t in x.tables]` -/
def unitsView {I T} (stores : List (UnitStore I T)) : List (List I × List T) := stores.map (fun s => (s.images, s.tables))
/-- `iterate_images()`: `for x in self.<units>: for img in x.images: yield img` -/
def imagesView {I T} (stores : List (UnitStore I T)) : List I := stores.flatMap (·.images)
/-- `iterate_tables()`: `for x in self.<units>: for t in x.tables: yield TableData(data=t)` -/
def tablesView {I T} (stores : List (UnitStore I T)) : List T := stores.flatMap (·.tables)

/-- XlsxContent / OdsContent: the sheet *is* the table; `iterate_units` lists it only when `sheet.data` is
    non-empty (`[TableData(data=sheet.data)] if sheet.data else []`), `iterate_tables` yields every sheet. -/
structure SheetStore (I : Type) where
  images : List I
  rows : Nat                 -- len(sheet.data)
def sheetUnitsView {I} (sheets : List (SheetStore I)) : List (List I × List Nat) :=
  sheets.map (fun s => (s.images, if s.rows = 0 then [] else [s.rows]))
def sheetImagesView {I} (sheets : List (SheetStore I)) : List I := sheets.flatMap (·.images)
def sheetTablesView {I} (sheets : List (SheetStore I)) : List Nat := sheets.map (·.rows)

end S2T.Images
