import S2T.Model.Archive
/-!
C09, second part of the model: WHICH members may reach a result / the private directory.

  sharepoint2text/parsing/extractors/archive_extractor.py
      _extract_from_tar_optimized   (the member-kind guard `if not member.isreg(): continue`)
      _extract_from_7z_optimized    (`szf.extractall(path=temp_dir, members=[accepted entries])`)
  sharepoint2text/parsing/extractors/util/sevenzip.py
      SevenZipReader.list / extractall / _needed_output / _extract_files_from_folder
      (`wanted = {id(member) …}`: the entries to decode and write are selected by OBJECT IDENTITY,
       i.e. by position in the file list — never by name)

* `TarKind` / `kindAccepted`: the member kinds of `tarfile` and the `TarInfo.is…()` predicates that can
  appear in the guard; the generated inventory of the predicates the guard really uses is checked against it.
* `run7zTemp` / `tempFiles`: the content of the private directory when `extractall` returns (what
  `TemporaryDirectory.__exit__` removes); the harness compares it with a snapshot of the real directory.
-/
namespace S2T.Archive
open S2T.Router (Str Tables)

/-! ## TAR member kinds -/

/-- `tarfile` member types as the `TarInfo.is…()` predicates see them (`isreg` = REGTYPE, AREGTYPE,
    CONTTYPE, GNUTYPE_SPARSE: members that carry their OWN bytes) -/
inductive TarKind
  | reg | lnk | sym | dir | chr | blk | fifo
  deriving DecidableEq, Repr

def TarKind.all : List TarKind := [.reg, .lnk, .sym, .dir, .chr, .blk, .fifo]

/-- kinds for which the `TarInfo` predicate of that name answers True (unknown names: every kind —
    a predicate the model does not know is assumed to let everything through) -/
def predKinds (pred : String) : List TarKind :=
  if pred = "isreg" ∨ pred = "isfile" then [.reg]
  else if pred = "islnk" then [.lnk]
  else if pred = "issym" then [.sym]
  else if pred = "isdir" then [.dir]
  else if pred = "ischr" then [.chr]
  else if pred = "isblk" then [.blk]
  else if pred = "isfifo" then [.fifo]
  else if pred = "isdev" then [.chr, .blk, .fifo]
  else TarKind.all

/-- a member kind can get past a guard built from these predicates (read conservatively: any
    predicate named in the member loop is taken as one that lets its kinds through) -/
def kindAccepted (preds : List String) (k : TarKind) : Bool := preds.any (fun p => (predKinds p).contains k)

/-- a TAR member with its kind; `follow` below is what `tarfile.extractfile` hands out for a member that has
    no bytes of its own (it FOLLOWS hard and symbolic links to another member's bytes) -/
structure TarEntry where
  name : Str
  kind : TarKind
  size : Nat
  own : Option (List Nat)        -- the bytes stored for this member itself (regular members)

/-- what the member loop sees: `isreg()`, and `extractfile(member).read()` -/
def TarEntry.toMember (follow : TarEntry → Option (List Nat)) (e : TarEntry) : TarMember :=
  { name := e.name, isReg := e.kind == .reg, size := e.size, read := if e.kind == .reg then e.own else follow e }

/-- the TAR member loop with an arbitrary kind guard (the source has `accept k = (k == .reg)`) -/
def tarRunK (accept : TarKind → Bool) (follow : TarEntry → Option (List Nat)) (skip : Str → Str → Bool) (env : Env) (lim : Limits) :
    List TarEntry → List Res
  | [] => []
  | e :: r =>
    if !accept e.kind then tarRunK accept follow skip env lim r
    else if skip e.name (basename e.name) then tarRunK accept follow skip env lim r
    else if e.size > lim.maxMemory then tarRunK accept follow skip env lim r
    else match (e.toMember follow).read with
      | none => tarRunK accept follow skip env lim r
      | some d => processEntry env lim e.name (basename e.name) d ++ tarRunK accept follow skip env lim r

/-! ## 7z: what the private directory holds -/

/-- the run of `extractall(path=temp_dir, members=[accepted entries])` inside `_extract_from_7z_optimized` -/
def run7zTemp (skip : Str → Str → Bool) (env : Env) (lim : Limits) (cwd base : Str) (a : SevenZ) : Run :=
  let files := buildFiles a.entries a.fileSizes a.emptyFiles
  let fmap := mapFiles a.folders files 0 0 0
  let todo := select7z skip lim files
  extractAllFull env cwd base files fmap a.folderData a.folders (some (todo.map (·.1))) ⟨[], [], none⟩

/-- the regular files below the private directory (path, bytes), latest write per path -/
def liveFiles (fs : Overlay) : List (Str × List Nat) :=
  (fs.filterMap (fun pn => match pn.2 with
    | .file d => if olookup pn.1 fs == some (.file d) then some (pn.1, d) else none
    | .dir => none)).eraseDups

/-- content of the private directory at the moment it is removed (nothing if the generator never started) -/
def tempFiles (T : Tables) (nested : List Str) (env : Env) (lim : Limits) (cwd base : Str) (a : SevenZ) (c : Consumer) :
    List (Str × List Nat) :=
  if c = .closeAfter 0 then [] else liveFiles (run7zTemp (shouldSkip T nested env) env lim cwd base a).fs

end S2T.Archive
