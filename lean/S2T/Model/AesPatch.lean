/-
Model of the one-way AES patch of pypdf's fallback crypto provider and of the way `read_pdf`
reaches it: `pdf_extractor._open_pdf_reader`, `read_pdf` (decrypt with the empty password, page
loop) and `_pypdf_aes_fallback.patch_pypdf_fallback_aes`.

Process-global state: the 17 module / class attributes that `patch_pypdf_fallback_aes` assigns
(`S2T.Gen.GlobalWrites.aesCells`); they are only ever written together, by that one function, with
functionally identical values, so the state is one bit `patched`.

pypdf facts used (modelled, not verified; tied by the correspondence on generated encrypted PDFs):
* `PdfReader(stream)` verifies the empty password in the constructor; for `/V 5` (AES-256) this
  needs AES and raises `DependencyError("... AES algorithm")` on the unpatched fallback provider;
  `/V 4` AESV2 (AES-128) and RC4 verify with MD5/RC4 only;
* AES is needed again when strings / streams of an AES document are decrypted (page access);
  a `DependencyError` there is caught by `read_pdf`'s `except Exception` → `ExtractionFailedError`;
* `reader.decrypt("")` returns 0 when the document has a non-empty user password.
-/
namespace S2T.AesPatch

inductive Provider | fallback | native            -- `crypt_provider[0] == "local_crypt_fallback"` or a real backend
  deriving DecidableEq, Repr
inductive Enc | none | rc4 | aesV4 | aesV5
  deriving DecidableEq, Repr
structure Doc where
  enc : Enc
  emptyPw : Bool           -- the user password is the empty string
  deriving DecidableEq, Repr
structure St where
  patched : Bool
  deriving DecidableEq, Repr
inductive Res | ok | encrypted | failed            -- PdfContent | ExtractionFileEncryptedError | ExtractionFailedError
  deriving DecidableEq, Repr

def aesOk (p : Provider) (s : St) : Bool := p == .native || s.patched

/-- `patch_pypdf_fallback_aes()`: (return value, state) -/
def patch (p : Provider) (s : St) : Bool × St :=
  match p with
  | .native => (false, s)
  | .fallback => (true, { patched := true })

def usesAes (d : Doc) : Bool := d.enc == .aesV4 || d.enc == .aesV5

/-- `read_pdf` after `_open_pdf_reader` returned a reader, in state `s`. -/
def afterOpen (p : Provider) (s : St) (d : Doc) : Res :=
  if d.enc == .none then .ok
  else if !d.emptyPw then .encrypted                 -- `reader.decrypt("") == 0`
  else if usesAes d && !aesOk p s then .failed       -- DependencyError while decrypting a string / stream
  else .ok

/-- `PdfReader(file_like)` raises `DependencyError(AES)` -/
def ctorNeedsAes (p : Provider) (s : St) (d : Doc) : Bool := d.enc == .aesV5 && !aesOk p s

namespace Legacy
/-- `read_pdf` before fix-aes-fallback-eager.patch -/
def extract (p : Provider) (s : St) (d : Doc) : Res × St :=
  if ctorNeedsAes p s d then
    match patch p s with
    | (false, s') => (.failed, s')                   -- `if not patch_pypdf_fallback_aes(): raise`
    | (true, s') => (afterOpen p s' d, s')           -- second `PdfReader(file_like)`
  else (afterOpen p s d, s)
end Legacy

namespace Fixed
/-- `_open_pdf_reader` after the fix: as before, then `if reader.is_encrypted: patch_pypdf_fallback_aes()` -/
def openReader (p : Provider) (s : St) (d : Doc) : Option St :=
  let s1? : Option St :=
    if ctorNeedsAes p s d then
      match patch p s with
      | (false, _) => none
      | (true, s') => some s'
    else some s
  match s1? with
  | none => none
  | some s1 => if d.enc != .none then some (patch p s1).2 else some s1

def extract (p : Provider) (s : St) (d : Doc) : Res × St :=
  match openReader p s d with
  | none => (.failed, s)
  | some s' => (afterOpen p s' d, s')

/-- a sequence of extractions in one process: results in order, final state -/
def runSeq (p : Provider) (s : St) : List Doc → List Res × St
  | [] => ([], s)
  | d :: r => let (x, s') := extract p s d; let (xs, s'') := runSeq p s' r; (x :: xs, s'')
end Fixed

end S2T.AesPatch
