import S2T.Model.Images
/-!
# C14 — numbered parts and PDF filter chains

Two steps of the image extraction that sit *in front of* the image loops of `S2T.Model.Images`:

* XLSX `_extract_images_from_zip`, first loop: the worksheet ↦ drawing dictionary `sheet_to_drawing` is filled by
  **probing one member name per sheet index** (`xl/worksheets/_rels/sheet{k+1}.xml.rels` for `k = 0 .. n-1`), and the
  second loop walks that dictionary in insertion order with the workbook-wide counter.  The order in which numbered
  part names are visited is therefore the numeric order of the sheets, not the (string) order of the member names.
* PDF `_extract_image`: format / content type of an image XObject are looked up under the **last** filter of the
  `/Filter` entry (a name, or an array = decode chain whose last element is the image codec).
-/
namespace S2T.Images
open S2T.Spec.Opc

/-! ## XLSX: which worksheet relationship parts are read, and in which order -/

/-- `f"{n}"` for a non-negative int -/
def decimal (n : Nat) : Str := (Nat.repr n).toList

/-- `f"xl/worksheets/_rels/sheet{sheet_idx + 1}.xml.rels"` -/
def sheetRelsName (k : Nat) : Str :=
  "xl/worksheets/_rels/sheet".toList ++ decimal (k + 1) ++ ".xml.rels".toList

/-- what the package says about a worksheet relationships part: `none` = no such member,
    `some none` = the part has no relationship whose type contains "drawing",
    `some (some t)` = `t` is the Target of the first such relationship -/
abbrev SheetRels := Str → Option (Option Str)

/-- drawing part of the sheet at position `k` (0-based), if any -/
def sheetDrawing (rels : SheetRels) (k : Nat) : Option Str :=
  ((rels (sheetRelsName k)).bind id).map xlsxDrawingPath

/-- `sheet_to_drawing` as the list of its items in insertion order, for a visiting order `order` of sheet indices.
    The source visits `range(len(sheet_names))`. -/
def sheetToDrawingVia (rels : SheetRels) (order : List Nat) : List (Nat × Str) :=
  order.filterMap fun k => (sheetDrawing rels k).map fun d => (k, d)

def sheetToDrawing (rels : SheetRels) (n : Nat) : List (Nat × Str) := sheetToDrawingVia rels (List.range n)

/-- anchors of a drawing part in the order of the part (kind = index in `ANCHOR_TYPES`, target of the embedded relationship) -/
abbrev Drawings := Str → List (Nat × Option Str)

/-- anchors visited for one dictionary item (`if drawing_path not in namelist: continue`) -/
def drawingUnit (pkg : Pkg) (dr : Drawings) (d : Str) : List (Str × Nat × Option Str) :=
  if (pkg d).isSome then (dr d).map (fun a => (d, a)) else []

/-- second loop: `for sheet_idx, drawing_path in sheet_to_drawing.items()` with the shared `image_counter`;
    item i of the result = `images_by_sheet[sheet_idx]` of dictionary item i (`[]` = key not set) -/
def xlsxByMap (pkg : Pkg) (dr : Drawings) (items : List (Nat × Str)) : List (List Img) :=
  loopDoc (fun _ (a : Str × Nat × Option Str) => xlsxClassify pkg a.1 a.2) (fun _ => none) 1 0
    (items.map fun it => drawingUnit pkg dr it.2)

/-- `images_by_sheet.get(k, [])` for `k = 0 .. n-1` (what `XlsxSheet.images` of the sheet at position k holds) -/
def lookupSheet (keys : List Nat) (vals : List (List Img)) (k : Nat) : List Img :=
  match keys, vals with
  | key :: ks, v :: vs => if key = k then v else lookupSheet ks vs k
  | _, _ => []

def xlsxExtractPkgVia (pkg : Pkg) (rels : SheetRels) (dr : Drawings) (order : List Nat) (n : Nat) : List (List Img) :=
  let items := sheetToDrawingVia rels order
  (List.range n).map (lookupSheet (items.map (·.1)) (xlsxByMap pkg dr items))

/-- the XLSX extraction from the package: names probed per sheet index -/
def xlsxExtractPkg (pkg : Pkg) (rels : SheetRels) (dr : Drawings) (n : Nat) : List (List Img) :=
  xlsxExtractPkgVia pkg rels dr (List.range n) n

/-- the positional document the loops of `S2T.Model.Images` run on, read off the package -/
def sheetsByPosition (rels : SheetRels) (dr : Drawings) (order : List Nat) : List (Option Str × List (Nat × Option Str)) :=
  order.map fun k => match sheetDrawing rels k with
    | some d => (some d, dr d)
    | none => (none, [])

/-! ## PDF: `/Filter` entry ↦ filter name the tables are consulted with -/

/-- value of `/Filter`: a name (`""` when the key is absent) or an array of names -/
inductive PdfFilter where
  | name (n : Str)
  | array (l : List Str)

/-- `if isinstance(filter_type, list): filter_type = filter_type[-1] if filter_type else ""` -/
def pdfFilterType : PdfFilter → Str
  | .name n => n
  | .array l => l.getLast?.getD []

/-- `FILTER_TO_FORMAT.get(filter_type, "raw")` -/
def pdfFormat (tbl : List (Str × Str)) (f : PdfFilter) : Str := (lookupStr (pdfFilterType f) tbl).getD "raw".toList
/-- `FILTER_TO_CONTENT_TYPE.get(filter_type, "image/unknown")` -/
def pdfCtype (tbl : List (Str × Str)) (f : PdfFilter) : Str := (lookupStr (pdfFilterType f) tbl).getD "image/unknown".toList

/-- the variant "first filter of the chain that the table knows, else the last one" (a plausible way to skip
    transport filters — wrong, because /FlateDecode and /LZWDecode are both table keys *and* transport filters) -/
def pdfFilterTypeFirstKnown (tbl : List (Str × Str)) : PdfFilter → Str
  | .name n => n
  | .array l => (l.find? (fun f => (lookupStr f tbl).isSome)).getD (l.getLast?.getD [])

end S2T.Images
