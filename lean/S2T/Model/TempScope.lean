/-
Model of the temporary-directory scope inside the 7z member generator
(`archive_extractor._extract_from_7z_optimized`):

    with tempfile.TemporaryDirectory() as temp_dir:
        try: szf.extractall(path=temp_dir)
        except Exception as e: raise ExtractionFailedError(...)
        yield from _process_7z_files_sequential(files_to_process, temp_dir, archive_path)

A generator is driven by its consumer; what the consumer does after each yielded member is a
parameter.  `live` is the set of temporary directories that exist (as a list of ids).
-/
namespace S2T.TempScope

inductive Consumer
  | exhaust                 -- `for x in gen: ...` to the end
  | closeAfter (k : Nat)    -- `gen.close()` / dropped reference after k members (GeneratorExit at the yield)
  | throwAfter (k : Nat)    -- the consumer's exception is thrown into the generator after k members
  deriving DecidableEq, Repr

inductive Outcome | finished (yielded : Nat) | closed (yielded : Nat) | raised (yielded : Nat)
  deriving DecidableEq, Repr

/-- members: `true` = the member yields a result, `false` = processing it raises out of the loop.
    `fresh` is the id `mkdtemp` hands out. -/
def inner (members : List Bool) (c : Consumer) (n : Nat) : Outcome :=
  match members with
  | [] => .finished n
  | m :: r =>
    if !m then .raised n
    else match c with
      | .closeAfter k => if n + 1 = k then .closed (n + 1) else inner r c (n + 1)
      | .throwAfter k => if n + 1 = k then .raised (n + 1) else inner r c (n + 1)
      | .exhaust => inner r c (n + 1)

/-- the `with TemporaryDirectory()` block: `__enter__`, body, `__exit__` on every way out. -/
def run7z (live : List Nat) (fresh : Nat) (extractAllFails : Bool) (members : List Bool) (c : Consumer) :
    Outcome × List Nat :=
  let live1 := fresh :: live                                   -- mkdtemp
  let out := if extractAllFails then Outcome.raised 0 else inner members c 0
  (out, live1.erase fresh)                                      -- cleanup() in __exit__

end S2T.TempScope
