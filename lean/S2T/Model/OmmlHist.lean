import S2T.Model.Omml
/-
C19 model of conversion HISTORIES on one element object (core Lean only).

ElementTree elements are mutable: a caller may convert a formula root, edit the tree IN PLACE (change a run's
`text`, set / delete the `m:val` attribute, rename an element, insert / remove a child anywhere below the root) and
convert the SAME object — or any element below it — again.  "The conversion is deterministic / a function of the tree"
says: every conversion of a history returns what the conversion of a FRESH copy of the tree, as it is at that moment,
returns.

* `Edit`, `editAt` : what the in-place operations of `xml.etree.ElementTree` do to the part of an element the
  converter looks at (`S2T.Omml.Xml`: namespace flag, local name, `m:val`, `text or ""`, children); a path is the list
  of child indices from the root.  Tied to the real `Element` operations by the C19 correspondence (driver op `c19.hist`).
* `fresh f t steps` : the outputs the property demands — `f` applied to the element at the path in the tree AS IT IS NOW.
* `runHist impl g t steps` : the outputs of an implementation that threads a store `σ` (whatever survives a call:
  module-level containers, function attributes, memo tables, default values) through the calls of the history.
* `Store chans ν` : a store that has one cell per inter-call channel of the inventory `chans`.
-/
namespace S2T.OmmlHist
open S2T.Omml

/-- an in-place operation on one element -/
inductive Edit where
  | setText (s : Str)                 -- `e.text = s`
  | setVal (v : Option Str)           -- `e.set(M_NS+"val", v)` / `del e.attrib[M_NS+"val"]`
  | setTag (mns : Bool) (name : Str)  -- `e.tag = ...`
  | insert (i : Nat) (x : Xml)        -- `e.insert(i, x)` (`i ≥ len(e)`: append)
  | remove (i : Nat)                  -- `e.remove(e[i])` (nothing when there is no such child)
  | setKids (ks : List Xml)           -- `e[:] = ks` (reorder / replace the children)

def applyHere : Edit → Xml → Xml
  | .setText s, .node m n v _ k => .node m n v s k
  | .setVal v, .node m n _ t k => .node m n v t k
  | .setTag m n, .node _ _ v t k => .node m n v t k
  | .insert i x, .node m n v t k => .node m n v t (k.take i ++ x :: k.drop i)
  | .remove i, .node m n v t k => .node m n v t (k.eraseIdx i)
  | .setKids ks, .node m n v t _ => .node m n v t ks

/-- the edit applied to the element at `path` (child indices from the root); a path that leads nowhere changes nothing -/
def editAt : List Nat → Edit → Xml → Xml
  | [], e, x => applyHere e x
  | i :: p, e, .node m n v t k => .node m n v t (k.modify i (editAt p e))

/-- the element at `path` -/
def subAt : List Nat → Xml → Option Xml
  | [], x => some x
  | i :: p, x => (x.kids[i]?).bind (subAt p)

inductive Step where
  | conv (path : List Nat)            -- `omml_to_latex(<element at path>)`
  | edit (path : List Nat) (e : Edit)

/-- the outputs the property demands: every conversion sees the tree as it is at that moment -/
def fresh (f : Xml → Str) : Xml → List Step → List Str
  | _, [] => []
  | t, .edit p e :: r => fresh f (editAt p e t) r
  | t, .conv p :: r =>
    match subAt p t with
    | none => fresh f t r
    | some x => f x :: fresh f t r

/-- the outputs of an implementation with a store threaded through the calls -/
def runHist {σ} (impl : σ → Xml → Str × σ) : σ → Xml → List Step → List Str
  | _, _, [] => []
  | g, t, .edit p e :: r => runHist impl g (editAt p e t) r
  | g, t, .conv p :: r =>
    match subAt p t with
    | none => runHist impl g t r
    | some x => (impl g x).1 :: runHist impl (impl g x).2 t r

/-- one cell per inter-call channel -/
def Store (chans : List String) (ν : Type) : Type := { c : String // c ∈ chans } → ν

/-- the shape of the seeded defect class: remember the first answer for the object, return it ever after -/
def memoImpl (f : Xml → Str) : Option Str → Xml → Str × Option Str
  | some v, _ => (v, some v)
  | none, x => (f x, some (f x))

end S2T.OmmlHist
