import S2T.Model.HtmlSkip
/-!
Model of the table walkers and of the sheet-as-table shaping (property C13).

* XML formats (`xml.etree.ElementTree` trees; the parser is not modelled, the tree is the input):
  - `docx_extractor._extract_tables_from_context`, `_collect_text_from_element`
  - `pptx_extractor._extract_table_from_graphic_frame`, `_extract_text_from_paragraphs`
  - `odt_extractor._extract_tables`, `_iter_own_rows`; `odp_extractor._extract_table`;
    `open_office/_shared.element_text`
* HTML: `html_extractor._HtmlTextExtractor._extract_table`, `_get_cell_text`, `_find_own_rows`,
  `_find_nested_tables`, the table part of `_process_node`, `extract` (body lookup) — over the
  dict tree built by `_HtmlTreeBuilder` (modelled in `S2T.Model.HtmlSkip`, `Tree.Node`).
* EPUB: the table state of `_XhtmlTextExtractor` is `S2T.HtmlSkip.Epub` (re-used unchanged).
* sheets: `xlsx_extractor._read_sheet_data` / `_is_table_name_row` / `_read_content_from_workbook`,
  `ods_extractor._extract_sheet` (repeat expansion, trimming, padding), `xls_extractor._read_content`
  + `XlsSheet.get_table`, and `get_dim` of every table class.

An `ElementTree.Element` has the same five fields as the HTML dict node (`tag`, `attrib`, `text`,
children, `tail`), so `HtmlSkip.Tree.Node` is used for both.  Tag names are parameters
(`DocxTags` …); their values are generated from the source (`S2T/Gen/Tables.lean`).
-/
namespace S2T.Tables
open S2T.HtmlSkip (Str)

abbrev Node := S2T.HtmlSkip.Tree.Node
abbrev Grid := List (List Str)

namespace Node
def tag : Node → Str | .mk t _ _ _ _ => t
def attrs : Node → List (Str × Str) | .mk _ a _ _ _ => a
def text : Node → Str | .mk _ _ x _ _ => x
def kids : Node → List Node | .mk _ _ _ c _ => c
def tail : Node → Str | .mk _ _ _ _ tl => tl
/-- `elem.get(k)` -/
def get (n : Node) (k : Str) : Option Str := (n.attrs.find? (fun kv => kv.1 == k)).map (·.2)
end Node

/-! ## ElementTree navigation -/

mutual
/-- `elem.iter()`: the element and all its descendants, document order -/
def descSelf : Node → List Node
  | .mk t a x ch tl => .mk t a x ch tl :: descL ch
def descL : List Node → List Node
  | [] => []
  | c :: r => descSelf c ++ descL r
end

/-- `elem.iter(tag)` -/
def iter (tag : Str) (n : Node) : List Node := (descSelf n).filter (fun m => m.tag == tag)
/-- `elem.findall(tag)` (direct children) -/
def findall (tag : Str) (n : Node) : List Node := n.kids.filter (fun m => m.tag == tag)
/-- `elem.find(tag)` -/
def find (tag : Str) (n : Node) : Option Node := n.kids.find? (fun m => m.tag == tag)

/-- `sep.join(parts)` -/
def joinWith (sep : Str) : List Str → Str
  | [] => []
  | [x] => x
  | x :: r => x ++ sep ++ joinWith sep r

def isPySpace := S2T.HtmlSkip.Epub.isPySpace

/-- `s.lstrip()` -/
def lstrip : Str → Str
  | [] => []
  | c :: r => if isPySpace c then lstrip r else c :: r
/-- `s.strip()` -/
def pyStrip (s : Str) : Str := (lstrip (lstrip s).reverse).reverse

/-! ## DOCX -/

structure DocxTags where
  p : Str
  tbl : Str
  tr : Str
  tc : Str
  t : Str

/-- `_collect_text_from_element`: `"".join(t.text for t in element.iter(W_T) if t.text)` -/
def docxCollectText (T : DocxTags) (e : Node) : Str := (iter T.t e).flatMap Node.text

/-- cell: `"\n".join(_collect_text_from_element(p) for p in tc.iter(W_P))` -/
def docxCellText (T : DocxTags) (tc : Node) : Str :=
  joinWith ['\n'] ((iter T.p tc).map (docxCollectText T))

/-- one `w:tbl`: rows = `tbl.findall(W_TR)`, cells = `tr.findall(W_TC)` -/
def docxTable (T : DocxTags) (tbl : Node) : Grid :=
  (findall T.tr tbl).map (fun tr => (findall T.tc tr).map (docxCellText T))

/-- `_extract_tables_from_context` (tables only): body children that are `w:tbl`, each with the
    tables nested in it (`child.iter(W_TBL)`) -/
def docxTables (T : DocxTags) (body : Node) : List Grid :=
  body.kids.flatMap (fun child => if child.tag == T.tbl then (iter T.tbl child).map (docxTable T) else [])

/-! ## PPTX -/

structure PptxTags where
  graphicData : Str
  tbl : Str
  tr : Str
  tc : Str
  txBody : Str
  p : Str
  r : Str
  fld : Str
  br : Str
  t : Str
  tableUri : Str

/-- one paragraph of `_extract_text_from_paragraphs` -/
def pptxParaText (T : PptxTags) (p : Node) : Str :=
  p.kids.flatMap (fun c =>
    if c.tag == T.r || c.tag == T.fld then
      (match find T.t c with | some t => t.text | none => [])
    else if c.tag == T.br then [Char.ofNat 11]
    else if c.tag == T.t then c.text
    else [])

/-- `_extract_text_from_paragraphs` -/
def pptxText (T : PptxTags) (e : Node) : Str := joinWith ['\n'] ((iter T.p e).map (pptxParaText T))

def sUri : Str := "uri".toList

/-- `_extract_table_from_graphic_frame`; `none` = "not a table" -/
def pptxFrameTable (T : PptxTags) (frame : Node) : Option Grid :=
  match (iter T.graphicData frame).head? with
  | none => none
  | some gd =>
    if gd.get sUri != some T.tableUri then none
    else match find T.tbl gd with
      | none => none
      | some tbl =>
        some ((findall T.tr tbl).map (fun tr => (findall T.tc tr).map (fun tc =>
          match find T.txBody tc with
          | some b => pyStrip (pptxText T b)
          | none => [])))

/-! ## ODF text (`_shared.element_text`) -/

structure OdfTags where
  table : Str
  row : Str
  cell : Str
  headerRows : Str
  p : Str
  s : Str          -- text:s
  tab : Str
  lineBreak : Str
  attrC : Str      -- text:c
  skip : List Str  -- _TEXT_SKIP_TAGS of the module

def isAsciiDigit (c : Char) : Bool := '0' ≤ c && c ≤ '9'

/-- `int(raw)` for the plain forms `ws* [+-]? digit+ ws*` (ASCII); anything else is a `ValueError`
    here (`none`).  CPython also accepts `_` separators and non-ASCII digits: the
    correspondence only generates the plain forms and clear non-numbers. -/
def pyInt? (raw : Str) : Option Int :=
  let s := pyStrip raw
  let (neg, ds) := match s with
    | '-' :: r => (true, r)
    | '+' :: r => (false, r)
    | r => (false, r)
  if ds.isEmpty || !ds.all isAsciiDigit then none
  else
    let n : Nat := ds.foldl (fun acc c => acc * 10 + (c.toNat - 48)) 0
    some (if neg then - (n : Int) else (n : Int))

mutual
/-- `_append_element_text` -/
def odfText (T : OdfTags) : Node → Str
  | .mk _ _ x ch _ => x ++ odfTextL T ch
def odfTextL (T : OdfTags) : List Node → Str
  | [] => []
  | c :: r =>
    (if T.skip.contains c.tag then []
     else if c.tag == T.s then
       (let count : Int := match c.get T.attrC with
          | none => 1
          | some raw => (match pyInt? raw with | some k => k | none => 1)
        if count > 0 then List.replicate count.toNat ' ' else [])
     else if c.tag == T.tab then ['\t']
     else if c.tag == T.lineBreak then ['\n']
     else odfText T c)
    ++ c.tail ++ odfTextL T r
end

/-- cell text of ODT / ODP tables: `"\n".join(_get_text_recursive(p) for p in cell.iter(text:p))` -/
def odfCellText (T : OdfTags) (cell : Node) : Str :=
  joinWith ['\n'] ((iter T.p cell).map (odfText T))

/-- rows → grid with the `if row_data:` filter -/
def odfRows (T : OdfTags) (rows : List Node) : Grid :=
  rows.filterMap (fun row =>
    let cells := (findall T.cell row).map (odfCellText T)
    if cells.isEmpty then none else some cells)

/-! ## ODT -/

/-- `_iter_own_rows(table)` as a function of `list(table)` -/
def odtOwnRowsL (T : OdfTags) : List Node → List Node
  | [] => []
  | (.mk t a x ch tl) :: r =>
    (if t == T.row then [.mk t a x ch tl]
     else if t != T.table then odtOwnRowsL T ch
     else [])
    ++ odtOwnRowsL T r

def odtOwnRows (T : OdfTags) (table : Node) : List Node := odtOwnRowsL T table.kids

/-- `_extract_tables(body)` -/
def odtTables (T : OdfTags) (body : Node) : List Grid :=
  (iter T.table body).filterMap (fun table =>
    let data := odfRows T (odtOwnRows T table)
    if data.isEmpty then none else some data)

/-! ## ODP -/

/-- `_extract_table(table_elem)` -/
def odpTable (T : OdfTags) (table : Node) : Grid :=
  odfRows T ((findall T.headerRows table).flatMap (findall T.row) ++ findall T.row table)

/-! ## HTML (dict tree of `_HtmlTreeBuilder`) -/

structure HtmlTags where
  cellBreak : List Str   -- _CELL_BREAK_TAGS
  remove : List Str      -- REMOVE_TAGS

def sTable : Str := "table".toList
def sTr : Str := "tr".toList
def sTd : Str := "td".toList
def sTh : Str := "th".toList
def sBody : Str := "body".toList

mutual
/-- `_get_cell_text` -/
def htmlCellRaw (H : HtmlTags) : Node → Str
  | .mk _ _ x ch _ => x ++ htmlCellRawL H ch
def htmlCellRawL (H : HtmlTags) : List Node → Str
  | [] => []
  | c :: r =>
    let sep : Str := if H.cellBreak.contains c.tag then [' '] else []
    (sep ++ htmlCellRaw H c ++ sep ++ c.tail) ++ htmlCellRawL H r
end

/-- `_RE_WS.sub(" ", s)`: every maximal run of whitespace becomes one space -/
def reSubWs : Str → Str
  | [] => []
  | c :: r =>
    if isPySpace c then
      (match r with
       | [] => [' ']
       | d :: _ => if isPySpace d then reSubWs r else ' ' :: reSubWs r)
    else c :: reSubWs r

/-- `_find_own_rows(node)` as a function of `node["children"]` -/
def htmlOwnRowsL : List Node → List Node
  | [] => []
  | (.mk t a x ch tl) :: r =>
    (if t == sTable then []
     else (if t == sTr then [.mk t a x ch tl] else []) ++ htmlOwnRowsL ch)
    ++ htmlOwnRowsL r

/-- `_extract_table(table_node)` -/
def htmlTable (H : HtmlTags) (table : Node) : Grid :=
  (htmlOwnRowsL table.kids).filterMap (fun tr =>
    let row := (tr.kids.filter (fun c => c.tag == sTh || c.tag == sTd)).map
      (fun c => reSubWs (pyStrip (htmlCellRaw H c)))
    if row.isEmpty then none else some row)

def isHeading (t : Str) : Bool :=
  t == "h1".toList || t == "h2".toList || t == "h3".toList || t == "h4".toList || t == "h5".toList || t == "h6".toList

mutual
/-- tables appended to `self.tables` by `_process_node(node)` -/
def htmlProc (H : HtmlTags) : Node → List Grid
  | .mk t a x ch tl =>
    if H.remove.contains t then []
    else if t == sTable then htmlTable H (.mk t a x ch tl) :: htmlNested H ch
    else if t == "li".toList then htmlProcL H ch
    else if isHeading t || t == "br".toList || t == "hr".toList then []
    else htmlProcL H ch
def htmlProcL (H : HtmlTags) : List Node → List Grid
  | [] => []
  | c :: r => htmlProc H c ++ htmlProcL H r
/-- `for nested in self._find_nested_tables(node): self._process_node(nested)` as a function of
    `node["children"]` (the two loops fused: the outermost nested tables are processed in document
    order, each one processing its own nested tables) -/
def htmlNested (H : HtmlTags) : List Node → List Grid
  | [] => []
  | (.mk t a x ch tl) :: r =>
    (if t == sTable then htmlProc H (.mk t a x ch tl) else htmlNested H ch) ++ htmlNested H r
end

mutual
/-- `_find_node(node, tag)`: first node in document order -/
def findNode (tag : Str) : Node → Option Node
  | .mk t a x ch tl => if t == tag then some (.mk t a x ch tl) else findNodeL tag ch
def findNodeL (tag : Str) : List Node → Option Node
  | [] => none
  | c :: r => match findNode tag c with
    | some n => some n
    | none => findNodeL tag r
end

/-- `extract()`: tables of the document tree -/
def htmlTables (H : HtmlTags) (root : Node) : List Grid :=
  match findNode sBody root with
  | some body => htmlProc H body
  | none => htmlProc H root

/-! ## Sheets -/

/-- a cell value as the spreadsheet reader hands it over / as the result stores it.
    Floats are opaque (`repr`); `dt` is a `datetime`/`date`/`time` with the answer of its
    `isoformat()`; `other` any other object with the answer of `str()`. -/
inductive Val
  | none
  | str (s : Str)
  | int (i : Int)
  | flt (repr : Str)
  | bool (b : Bool)
  | dt (iso : Str)
  | other (s : Str)
  deriving DecidableEq, Repr

abbrev VGrid := List (List Val)

/-- `get_dim()` of every table class: `(len(data), max((len(row) for row in data), default=0))` -/
def getDim {α : Type} (data : List (List α)) : Nat × Nat :=
  (data.length, data.foldl (fun m row => max m row.length) 0)

namespace Xlsx

/-- `_get_cell_value` -/
def getCellValue : Val → Val
  | .none => .none
  | .dt iso => .str iso
  | .other s => .str s
  | v => v

def isBlankStr (s : Str) : Bool := (pyStrip s).isEmpty

/-- `_is_cell_non_empty` -/
def isCellNonEmpty : Val → Bool
  | .none => false
  | .str s => !isBlankStr s
  | _ => true

def startsWith (p s : Str) : Bool := p.isPrefixOf s

/-- `_is_meaningful_value` -/
def isMeaningful : Val → Bool
  | .none => false
  | .str s => !isBlankStr s && !startsWith "Unnamed: ".toList s
  | _ => true

/-- 1-based index of the last element satisfying `p`, 0 if none (`range(len-1,-1,-1)` scans) -/
def lastIdx {α : Type} (p : α → Bool) : List α → Nat
  | [] => 0
  | x :: r => let k := lastIdx p r; if k > 0 then k + 1 else if p x then 1 else 0

/-- `_find_last_data_column` -/
def findLastDataColumn (rows : VGrid) : Nat :=
  rows.foldl (fun m row => max m (lastIdx isCellNonEmpty row)) 0

/-- `_find_last_data_row` -/
def findLastDataRow (rows : VGrid) : Nat := lastIdx (fun row => row.any isCellNonEmpty) rows

/-- `_is_table_name_row` -/
def isTableNameRow (row : List Val) : Bool :=
  (row.filter isMeaningful).length == 1 && row.length > 1

/-- `str(val)` of a header cell: opaque for floats / datetimes (the harness supplies it) -/
structure Hdr where
  val : Val
  strOf : Str     -- str(val) as CPython gives it

/-- header names of `_read_sheet_data` -/
def headerName (i : Nat) (v : Val) (strOf : Str) : Val :=
  match v with
  | .none => .str ("Unnamed: ".toList ++ (toString i).toList)
  | .str s => if isBlankStr s then .str ("Unnamed: ".toList ++ (toString i).toList) else .str s
  | _ => .str strOf

/-- `tuple(row[:n]) + (None,) * (n - len(row))`: the first `n` cells of a stored row, a short row filled up with
    empty cells (openpyxl's read-only reader yields rows of different lengths when the worksheet part has no
    `<dimension>` element and its rows store different numbers of cells) -/
def padTake (n : Nat) (row : List Val) : List Val := row.take n ++ List.replicate (n - row.length) Val.none

/-- `_read_sheet_data(ws)` given `rows = list(ws.iter_rows(values_only=True))` and `str()` of
    the first-row values: `(all_rows, first_row)`; the records are not part of the table -/
def readSheetData (rows : VGrid) (strOf : Nat → Str) : VGrid × List Val :=
  if rows.isEmpty then ([], [])
  else
    let rows := rows.take (findLastDataRow rows)
    match rows with
    | [] => ([], [])
    | _ =>
      let lastCol := findLastDataColumn rows
      let rows := rows.map (padTake lastCol)
      match rows with
      | [] => ([], [])
      | first :: rest =>
        let headers := (List.range first.length).zipWith (fun i v => headerName i v (strOf i)) first
        (headers :: rest.map (fun row => row.map getCellValue), first.map getCellValue)

/-- `XlsxSheet.data` as built by `_read_content_from_workbook` -/
def sheetData (rows : VGrid) (strOf : Nat → Str) : VGrid :=
  let (allRows, firstRow) := readSheetData rows strOf
  match allRows with
  | [] => []
  | h :: rest => if isTableNameRow h then rest else firstRow :: rest

end Xlsx

namespace Ods

/-- one `table:table-cell`: its `number-columns-repeated` and the typed value of
    `_extract_cell_value` (`Val.none` = empty) -/
abbrev RCell := Nat × Val
/-- one `table:table-row`: `number-rows-repeated` and its cells -/
abbrev RRow := Nat × List RCell

/-- the two literals `cell_repeat > 100` / `row_repeat > 100` of `_extract_sheet` (generated from the source) -/
structure Caps where
  cell : Nat
  row : Nat

/-- what one `table:table-cell` adds to `row_values`: an empty cell repeated more than `cap` times is
    collapsed to a single empty cell -/
def cellPiece (C : Caps) (c : RCell) : List Val :=
  if c.2 == Val.none && c.1 > C.cell then [Val.none] else List.replicate c.1 c.2

/-- inner loop of `_extract_sheet`: `row_values` -/
def rowValues (C : Caps) (cells : List RCell) : List Val := cells.flatMap (cellPiece C)

/-- what one `table:table-row` adds to `raw_rows`: a row without data repeated more than `cap` times is
    added once -/
def rowPiece (C : Caps) (r : RRow) : List (List Val) :=
  let rv := rowValues C r.2
  if r.1 > C.row && rv.all (· == Val.none) then [rv] else List.replicate r.1 rv

/-- outer loop: `raw_rows` -/
def rawRows (C : Caps) (rows : List RRow) : List (List Val) := rows.flatMap (rowPiece C)

/-- `while raw_rows and all(v[0] is None for v in raw_rows[-1]): raw_rows.pop()` -/
def trimRows (rows : List (List Val)) : List (List Val) :=
  (rows.reverse.dropWhile (fun row => row.all (· == Val.none))).reverse

/-- `last_data_col` -/
def lastDataCol (rows : List (List Val)) : Nat :=
  rows.foldl (fun m row => max m (Xlsx.lastIdx (fun v => v != Val.none) row)) 0

/-- padding loop: `row_data` of width `max_cols` -/
def padRow (w : Nat) (row : List Val) : List Val :=
  (List.range w).map (fun i => match row[i]? with | some v => v | none => Val.none)

/-- `OdsSheet.data` of `_extract_sheet` -/
def sheetData (C : Caps) (rows : List RRow) : VGrid :=
  let raw := trimRows (rawRows C rows)
  let w := lastDataCol raw
  raw.map (padRow w)

end Ods

namespace Xls

/-- an `xlrd` cell after `_get_cell_values` / `_get_cell_value(as_string=True)`: the native value
    and the header string -/
structure Cell where
  native : Val
  hdr : Str
  deriving DecidableEq, Repr

/-- Python `dict` assignment `d[k] = v` -/
def dictSet (d : List (Str × Val)) (k : Str) (v : Val) : List (Str × Val) :=
  match d with
  | [] => [(k, v)]
  | (k', v') :: r => if k = k' then (k, v) :: r else (k', v') :: dictSet r k v

def dictGet (d : List (Str × Val)) (k : Str) : Val :=
  match d.find? (fun kv => kv.1 == k) with
  | some kv => kv.2
  | none => Val.none     -- row.get(header) -> None

/-- one `row_dict` of `_read_content` -/
def rowDict (headers : List Str) (row : List Cell) : List (Str × Val) :=
  (headers.zip row).foldl (fun d hc => dictSet d hc.1 hc.2.native) []

/-- `XlsSheet.data` of `_read_content` for a sheet given as its `nrows × ncols` cells
    (`sheet.cell(r, c)`), `nrows ≥ 1` -/
def sheetData (cells : List (List Cell)) : List (List (Str × Val)) :=
  match cells with
  | [] => []
  | first :: rest =>
    let headers := first.map (·.hdr)
    rest.map (rowDict headers)

/-- `XlsSheet.get_table()` -/
def getTable (data : List (List (Str × Val))) : VGrid :=
  match data with
  | [] => []
  | d0 :: _ =>
    let headers := d0.map (·.1)
    headers.map Val.str :: data.map (fun row => headers.map (dictGet row))

end Xls

end S2T.Tables
