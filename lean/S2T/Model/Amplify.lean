import S2T.Model.Limits
/-
Models for two output-amplification mechanisms of C12 that are governed by a NUMBER written in the input
(so the cost follows the number, the input size only its digits):

* ODF `<text:s text:c="N"/>` (`open_office/_shared.py:_append_element_text`, shared by the ODT / ODP / ODS / ODG /
  ODF extractors, and `odt_extractor.py:_extract_caption_from_paragraph`): `parts.append(" " * int(N))`.
* XLSX `_read_sheet_data`: `rows = list(ws.iter_rows(values_only=True))` materialises the whole rectangle
  A1 … (max row, max column) spanned by the used cells; every cell of it ends up in `sheet.data` and in the text.
Core Lean only.
-/
namespace S2T.Amplify
open S2T.Limits (digits)

/-! ### ODF `text:s` -/

/-- `int(raw)` of an ASCII digit string (most significant digit first) -/
def digitsVal (ds : List Nat) : Nat := ds.foldl (fun acc d => acc * 10 + d) 0

/-- the `text:s` branch: `count = int(child.get(text:c, "1"))`; `if count > 0: parts.append(" " * count)` -/
def spaceRun (count : Int) : List Char := if count > 0 then List.replicate count.toNat ' ' else []

/-- an inline child of a paragraph: literal text (its characters) or a `text:s` element (the digits of its `text:c`) -/
inductive Inline
  | text (cs : List Char)
  | space (ds : List Nat)
deriving Repr, DecidableEq

/-- what `_append_element_text` appends for one child -/
def Inline.out : Inline → List Char
  | .text cs => cs
  | .space ds => spaceRun (digitsVal ds)

/-- bytes of the child in `content.xml` (ASCII text): `<text:s text:c="` (16) + digits + `"/>` (3) -/
def Inline.markupLen : Inline → Nat
  | .text cs => cs.length
  | .space ds => 19 + ds.length

/-- text of `<text:p>…</text:p>` -/
def paraText (p : List Inline) : List Char := p.flatMap (·.out)

/-- bytes of `<text:p>` (8) … `</text:p>` (9) -/
def paraMarkupLen (p : List Inline) : Nat := 17 + (p.map (·.markupLen)).sum

/-- the decimal numeral 1 0 … 0 (d zeros) -/
def pow10Digits (d : Nat) : List Nat := 1 :: List.replicate d 0

/-! ### XLSX: the rectangle spanned by the used cells -/

structure UsedCell where
  row : Nat         -- 1-based
  col : Nat         -- 1-based
  textLen : Nat     -- length of the inline string
deriving Repr, DecidableEq

def maxRow (cs : List UsedCell) : Nat := (cs.map (·.row)).foldl max 0
def maxCol (cs : List UsedCell) : Nat := (cs.map (·.col)).foldl max 0

/-- cells of `all_rows` returned by `_read_sheet_data` when the last row and the last column hold a value
    (nothing to trim): the full rectangle A1 … (max row, max column) -/
def rectCells (cs : List UsedCell) : Nat := maxRow cs * maxCol cs

/-- number of letters of a column name (bijective base 26: 1 ↦ A, 26 ↦ Z, 27 ↦ AA, 702 ↦ ZZ, 703 ↦ AAA; the format
    ends at XFD = 16384 and the reader rejects names beyond ZZZ = 18278, so three letters is the maximum) -/
def colLetters (c : Nat) : Nat := if c ≤ 26 then 1 else if c ≤ 702 then 2 else 3

/-- bytes of the worksheet part the harness writes: envelope (with `<dimension ref="A1:` … `"/>`) + the letters and
    digits of the dimension's far corner + per used cell
    `<row r="R"><c r="CR" t="inlineStr"><is><t>…</t></is></c></row>` = fixed tags + 2·digits(R) + letters(C) + text -/
def sheetLen (envelope cellTags : Nat) (cs : List UsedCell) : Nat :=
  envelope + colLetters (maxCol cs) + digits (maxRow cs) +
  (cs.map (fun c => cellTags + 2 * digits c.row + colLetters c.col + c.textLen)).sum

/-- the witness shape: A1 and one far cell -/
def sparseSheet (r c : Nat) : List UsedCell := [⟨1, 1, 1⟩, ⟨r, c, 1⟩]

end S2T.Amplify
