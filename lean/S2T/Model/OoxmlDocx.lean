import S2T.Model.OoxmlText
/-
C02 (part "ooxml"): model of the DOCX full-text walk in
sharepoint2text/parsing/extractors/ms_modern/docx_extractor.py

  `_process_text_element`  ↦ `processEl` / `processEls` (generic recursion), `runKids` (the `W_R` branch),
                             `choiceKids` (`elem.find(MC_CHOICE)` + loop over the choice's children)
  `_extract_paragraph_content` ↦ `paraText`
  `_unwrap_block_children` + `_extract_block_texts` ↦ `blockTexts` / `sdtBlocks`
  `_unwrap_block_children` + `_extract_table_text` ↦ `tableRows` / `sdtRows`, `rowCells` / `sdtCells`
  `_extract_full_text_from_body` ↦ `fullText`

`_unwrap_block_children` returns the children with `w:sdt` replaced by the (unwrapped) children of its first
`w:sdtContent` and `w:customXml` by its (unwrapped) children; the three callers then look at the tag of
each unwrapped child.  The model fuses the two steps (same order, same elements), which keeps every
function structurally recursive on the tree.

`m:oMath` / `m:oMathPara` (formulas; their conversion is property C19) contribute nothing here: the
documents of this property contain no formulas and the correspondence never generates these tags.
-/
namespace S2T.C02.Ooxml.Docx
open S2T.C02.Ooxml

variable (ws : Char → Bool)

mutual
/-- `_process_text_element(elem, parts, …)`: the strings it appends to `parts` -/
def processEl : Xml → List Str
  | .node tag _ _ kids =>
    match tag with
    | .alt => choiceKids kids
    | .fallback => []
    | .wTxbxContent =>
      let ts := blockTexts kids
      if ts.isEmpty then [] else [['\n'] ++ join ['\n'] ts ++ ['\n']]
    | .wR => runKids kids
    | .oMath => []
    | .oMathPara => []
    | _ => processEls kids
/-- `for child in elem: _process_text_element(child, …)` -/
def processEls : List Xml → List Str
  | [] => []
  | e :: r => processEl e ++ processEls r
/-- `choice = elem.find(MC_CHOICE)`; `for child in choice: _process_text_element(child, …)` -/
def choiceKids : List Xml → List Str
  | [] => []
  | .node tag _ _ kids :: r => if tag = .choice then processEls kids else choiceKids r
/-- the `tag == W_R` branch: only `w:t`, `w:tab`, `w:br`/`w:cr` and AlternateContent children count -/
def runKids : List Xml → List Str
  | [] => []
  | .node tag _ text kids :: r =>
    (match tag with
     | .wT => if text.isEmpty then [] else [text]
     | .wTab => [['\t']]
     | .wBr => [['\n']]
     | .wCr => [['\n']]
     | .alt => choiceKids kids
     | _ => []) ++ runKids r
/-- `_extract_block_texts(container, …)` over `list(container)` -/
def blockTexts : List Xml → List Str
  | [] => []
  | .node tag _ _ kids :: r =>
    (match tag with
     | .wSdt => sdtBlocks kids
     | .wCustomXml => blockTexts kids
     | .wP =>
       let t := strip (· == '\n') (concat (processEls kids))
       if nonblank ws t then [t] else []
     | .wTbl => tableRows kids
     | _ => []) ++ blockTexts r
def sdtBlocks : List Xml → List Str
  | [] => []
  | .node tag _ _ kids :: r => if tag = .wSdtContent then blockTexts kids else sdtBlocks r
/-- `_extract_table_text(table, …)` over `list(table)` -/
def tableRows : List Xml → List Str
  | [] => []
  | .node tag _ _ kids :: r =>
    (match tag with
     | .wSdt => sdtRows kids
     | .wCustomXml => tableRows kids
     | .wTr => rowCells kids
     | _ => []) ++ tableRows r
def sdtRows : List Xml → List Str
  | [] => []
  | .node tag _ _ kids :: r => if tag = .wSdtContent then tableRows kids else sdtRows r
def rowCells : List Xml → List Str
  | [] => []
  | .node tag _ _ kids :: r =>
    (match tag with
     | .wSdt => sdtCells kids
     | .wCustomXml => rowCells kids
     | .wTc =>
       let parts := blockTexts kids
       if parts.isEmpty then [] else [join [' '] parts]
     | _ => []) ++ rowCells r
def sdtCells : List Xml → List Str
  | [] => []
  | .node tag _ _ kids :: r => if tag = .wSdtContent then rowCells kids else sdtCells r
end

/-- `_extract_paragraph_content(paragraph, …)` -/
def paraText (p : Xml) : Str := strip (· == '\n') (concat (processEls ws p.kids))

/-- `_extract_full_text_from_body(body, …)` = `DocxContent.get_full_text()`, given `list(body)` -/
def fullText (bodyKids : List Xml) : Str := join ['\n'] (blockTexts ws bodyKids)

/-! ## The walk before the repairs (kept for the counterexample theorems)

`w:tab`/`w:br` in a run ignored; text-box content handled by the generic recursion; body children other
than `w:p`/`w:tbl` dropped; tables walked with `Element.iter` (all descendants). -/
namespace Legacy

mutual
def processEl : Xml → List Str
  | .node tag _ _ kids =>
    match tag with
    | .alt => choiceKids kids
    | .fallback => []
    | .wR => runKids kids
    | .oMath => []
    | .oMathPara => []
    | _ => processEls kids
def processEls : List Xml → List Str
  | [] => []
  | e :: r => processEl e ++ processEls r
def choiceKids : List Xml → List Str
  | [] => []
  | .node tag _ _ kids :: r => if tag = .choice then processEls kids else choiceKids r
def runKids : List Xml → List Str
  | [] => []
  | .node tag _ text kids :: r =>
    (match tag with
     | .wT => if text.isEmpty then [] else [text]
     | .alt => choiceKids kids
     | _ => []) ++ runKids r
end

mutual
/-- `elem.iter(tag)`: the element itself if it matches, then all descendants, document order -/
def iterNode (t : Tag) : Xml → List Xml
  | .node tag a x kids => (if tag = t then [.node tag a x kids] else []) ++ iterKids t kids
def iterKids (t : Tag) : List Xml → List Xml
  | [] => []
  | e :: r => iterNode t e ++ iterKids t r
end

def paraText (p : Xml) : Str := concat (processEls p.kids)

def cellText (ws : Char → Bool) (cell : Xml) : List Str :=
  let parts := ((iterKids .wP cell.kids).map paraText).filter (nonblank ws)
  if parts.isEmpty then [] else [join [' '] parts]

def tableText (ws : Char → Bool) (tbl : Xml) : List Str :=
  (iterKids .wTr tbl.kids).flatMap (fun row => (iterKids .wTc row.kids).flatMap (cellText ws))

def fullText (ws : Char → Bool) (bodyKids : List Xml) : Str :=
  join ['\n'] (bodyKids.flatMap (fun e =>
    if e.tag = .wP then (let t := paraText e; if nonblank ws t then [t] else [])
    else if e.tag = .wTbl then tableText ws e
    else []))

end Legacy

end S2T.C02.Ooxml.Docx
