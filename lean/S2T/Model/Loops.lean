/-
Models of the library's own `while` loops (C12 first half; also used by C01).

Every loop below is a Lean function defined by STRUCTURAL or WELL-FOUNDED recursion whose
`termination_by` measure is the variant the real loop has (`len − offset`, stack height, `b`, …).
There is no `partial` and no fuel: Lean accepting a definition *is* the termination proof of the
modelled loop.  Every function also counts its iterations (`steps`) — one per execution of the loop
body — so that `Props/C12*.lean` can state *linear* cost, not just finiteness.

`bytes` are `List Nat` (each < 256 at the driver boundary; nothing here depends on that bound);
`str` is `List Nat` of code points.  Tables that the real code takes from module constants are
parameters here and instantiated from `S2T.Gen.C12Consts` in the driver and in the theorems.
-/
namespace S2T.Loops

abbrev Bytes := List Nat

@[inline] def byte (d : Bytes) (i : Nat) : Nat := d.getD i 0
def u16le (d : Bytes) (o : Nat) : Nat := byte d o + 256 * byte d (o + 1)
def u16be (d : Bytes) (o : Nat) : Nat := 256 * byte d o + byte d (o + 1)
def u32le (d : Bytes) (o : Nat) : Nat :=
  byte d o + 256 * byte d (o + 1) + 65536 * byte d (o + 2) + 16777216 * byte d (o + 3)
def u32be (d : Bytes) (o : Nat) : Nat :=
  16777216 * byte d o + 65536 * byte d (o + 1) + 256 * byte d (o + 2) + byte d (o + 3)
/-- two's complement reading of a 32-bit value, then `abs` -/
def absI32 (v : Nat) : Nat := if v < 2147483648 then v else 4294967296 - v
/-- Python `d[a:b]` for `0 ≤ a` -/
def slice (d : Bytes) (a b : Nat) : Bytes := (d.drop a).take (b - a)
/-- `int.from_bytes(x, "big")` of a (possibly short) slice -/
def beInt (l : Bytes) : Nat := l.foldl (fun acc b => acc * 256 + b) 0
/-- `d[o:o+k] == pat` where `k = len(pat)` (false when the slice is short) -/
def matchAt (pat d : Bytes) (o : Nat) : Bool := slice d o (o + pat.length) == pat

/-- `bytes.find(pat, i)`: smallest `j ≥ i` with `d[j:j+len(pat)] == pat`. (C-level scan; its own
    variant is `len − j`.) -/
def findFrom (pat d : Bytes) (i : Nat) : Option Nat :=
  if h : i + pat.length ≤ d.length then
    if matchAt pat d i then some i
    else if h' : i < d.length then findFrom pat d (i + 1) else none   -- (`i = len` only for an empty pattern, which matches)
  else none
termination_by d.length - i

theorem findFrom_ge {pat d : Bytes} {i j : Nat} (h : findFrom pat d i = some j) : i ≤ j ∧ j + pat.length ≤ d.length := by
  fun_induction findFrom pat d i with
  | case1 i h1 hm => cases h; exact ⟨Nat.le_refl _, h1⟩
  | case2 i h1 hm h2 ih => have := ih h; omega
  | case3 i h1 hm h2 => cases h
  | case4 i h1 => cases h

/-! ## util/encryption.py : is_xls_encrypted — BIFF record walk looking for FILEPASS -/

/-- `(found, steps)`; variant `len − offset` (`offset += 4 + record_len`). -/
def xlsFilepass (filepass : Nat) (d : Bytes) (off : Nat) : Bool × Nat :=
  if h : off + 4 ≤ d.length then
    if u16le d off = filepass then (true, 1)
    else
      let r := xlsFilepass filepass d (off + 4 + u16le d (off + 2))
      (r.1, r.2 + 1)
  else (false, 0)
termination_by d.length - off

/-! ## util/image_utils.py : get_jpeg_dimensions — SOF scanner -/

/-- `((width, height) | none, steps)`; loop test `offset < len(data) − 9`; variant `len − offset`
    (`offset += 1` or `offset += 2 + segment_len`). -/
def jpegDims (sof : List Nat) (d : Bytes) (off : Nat) : Option (Nat × Nat) × Nat :=
  if h : off + 9 < d.length then
    if byte d off ≠ 0xFF then
      let r := jpegDims sof d (off + 1); (r.1, r.2 + 1)
    else
      let marker := byte d (off + 1)
      if marker = 0xFF then
        let r := jpegDims sof d (off + 1); (r.1, r.2 + 1)
      else if sof.contains marker then
        -- `if offset + 9 <= len(data)` is implied by the loop test
        (some (u16be d (off + 7), u16be d (off + 5)), 1)
      else
        -- `if offset + 4 <= len(data)` is implied by the loop test; the `else: break` arm is dead
        let r := jpegDims sof d (off + 2 + u16be d (off + 2)); (r.1, r.2 + 1)
  else (none, 0)
termination_by d.length - off

/-! ## ms_modern/{docx,xlsx,pptx}_extractor.py : _get_image_pixel_dimensions (JPEG branch) -/

/-- result of the JPEG branch: `some (w, h)` raw values (before `or None`), or `none`.
    `strict = true` is the pptx copy (an SOF marker whose segment overruns the data breaks the loop);
    `strict = false` are the docx/xlsx copies (it is skipped like any other segment).
    Variant `len − i` (`i += 1` or `i += 2 + length` with `length ≥ 2`). -/
def sofScan (sof : List Nat) (strict : Bool) (d : Bytes) (i : Nat) : Option (Nat × Nat) × Nat :=
  if h : i + 4 ≤ d.length then
    if byte d i ≠ 0xFF then
      let r := sofScan sof strict d (i + 1); (r.1, r.2 + 1)
    else
      let marker := byte d (i + 1)
      if marker = 0xD9 ∨ marker = 0xDA then (none, 1)
      else
        let length := u16be d (i + 2)
        if length < 2 then (none, 1)
        else if sof.contains marker ∧ i + 2 + length ≤ d.length then
          -- `int.from_bytes(image_data[i+7:i+9], "big")`: the slices may be short when `length < 7`
          (some (beInt (slice d (i + 7) (i + 9)), beInt (slice d (i + 5) (i + 7))), 1)
        else if sof.contains marker ∧ strict then (none, 1)
        else
          let r := sofScan sof strict d (i + 2 + length); (r.1, r.2 + 1)
  else (none, 0)
termination_by d.length - i

def pngSig : Bytes := [0x89, 0x50, 0x4E, 0x47, 0x0D, 0x0A, 0x1A, 0x0A]

/-- whole `_get_image_pixel_dimensions`: `(w|None, h|None, steps of the JPEG loop)`;
    `0` stands for `None` in the two dimension fields (`w or None`). -/
def pixelDims (sof : List Nat) (strict : Bool) (d : Bytes) : Nat × Nat × Nat :=
  if d.isEmpty then (0, 0, 0)
  else if matchAt pngSig d 0 ∧ d.length ≥ 24 then (u32be d 16, u32be d 20, 0)
  else if (slice d 0 6 == [71, 73, 70, 56, 55, 97] ∨ slice d 0 6 == [71, 73, 70, 56, 57, 97]) ∧ d.length ≥ 10 then
    (u16le d 6, u16le d 8, 0)
  else if slice d 0 2 == [66, 77] ∧ d.length ≥ 26 then (absI32 (u32le d 18), absI32 (u32le d 22), 0)
  else if matchAt [0xFF, 0xD8] d 0 then
    match sofScan sof strict d 2 with
    | (some (w, h), s) => (w, h, s)
    | (none, s) => (0, 0, s)
  else (0, 0, 0)

/-! ## ms_legacy/ppt_extractor.py : _iter_records and its re-walking caller -/

structure PptRec where
  recType : Nat
  recInstance : Nat
  isContainer : Bool
  offset : Nat
  endOffset : Nat
deriving Repr, DecidableEq

/-- `_iter_records(data, start)`: the yielded records (header fields and extent; `data` is
    `slice d (offset+8) endOffset`), the number of loop iterations, and the number of bytes copied
    into `Record.data` slices.  Loop test `offset <= data_len − 8`; variant `len − offset`
    (`offset += 1`, `offset = data_start` (+8) or `offset = data_end` (≥ +8)). -/
def pptIter (d : Bytes) (off : Nat) : List PptRec × Nat × Nat :=
  if h : off + 8 ≤ d.length then
    let vi := u16le d off
    let recLen := u32le d (off + 4)
    if recLen > d.length - off - 8 then
      let r := pptIter d (off + 1); (r.1, r.2.1 + 1, r.2.2)
    else
      let isC := vi % 16 = 15
      let dataStart := off + 8
      let dataEnd := dataStart + recLen
      let rec_ : PptRec := ⟨u16le d (off + 2), (vi / 16) % 4096, isC, off, dataEnd⟩
      -- "Containers: step into, non-containers: skip over"
      if isC then
        let r := pptIter d dataStart; (rec_ :: r.1, r.2.1 + 1, r.2.2 + recLen)
      else
        let r := pptIter d dataEnd; (rec_ :: r.1, r.2.1 + 1, r.2.2 + recLen)
  else ([], 0, 0)
termination_by d.length - off
decreasing_by all_goals omega

/-- `_extract_slide_list_texts`: walks the stream and, for every SlideListWithText record with
    instance 0, walks `record.data` again (`_parse_slide_list_container`).  `(steps, bytes copied)`
    summed over the outer walk and all inner walks. -/
def slideListCost (slwt : Nat) (d : Bytes) : Nat × Nat :=
  let outer := pptIter d 0
  let inner := outer.1.filter (fun r => r.recType = slwt ∧ r.recInstance = 0)
  inner.foldl (fun acc r =>
      let w := pptIter (slice d (r.offset + 8) r.endOffset) 0
      (acc.1 + w.2.1, acc.2 + w.2.2)) (outer.2.1, outer.2.2)

/-- `_parse_containers`: `while container_stack and record.offset >= container_stack[-1][1]: pop()`.
    Structural on the stack (top first): `(remaining stack, steps)`. -/
def popEnded (recOffset : Nat) : List (Nat × Nat) → List (Nat × Nat) × Nat
  | [] => ([], 0)
  | (t, e) :: rest => if recOffset ≥ e then let r := popEnded recOffset rest; (r.1, r.2 + 1) else ((t, e) :: rest, 0)

/-! ## ms_legacy/xls_extractor.py : _extract_images_from_workbook — BLIP record scan -/

/-- one entry `(offset, advance)` per iteration (a BLIP record was taken iff `advance > 1`, and then
    `rec_len = advance − 8`); `steps` = length of the list.  Loop test `offset <= data_len − 8`;
    variant `len − offset` (`offset += 1` or `offset += 8 + rec_len`). -/
def xlsBlipScan (blip : List Nat) (d : Bytes) (off : Nat) : List (Nat × Nat) :=
  if h : off + 8 ≤ d.length then
    let recType := u16le d (off + 2)
    let recLen := u32le d (off + 4)
    if recLen = 0 ∨ recLen > d.length - off - 8 then (off, 1) :: xlsBlipScan blip d (off + 1)
    else if ¬ blip.contains recType then (off, 1) :: xlsBlipScan blip d (off + 1)
    else (off, 8 + recLen) :: xlsBlipScan blip d (off + 8 + recLen)
  else []
termination_by d.length - off

/-! ## ms_legacy/doc_extractor.py : DIB carver and PNG carver -/

def dibSig : Bytes := [0x28, 0, 0, 0]

/-- `dib_len` of the BITMAPINFOHEADER at `i`, or `none` when one of the `i += 1; continue` filters
    rejects it (`header_size` is 40 by the signature). -/
def dibLenAt (d : Bytes) (i : Nat) : Option Nat :=
  let aw := absI32 (u32le d (i + 4))
  let ah := absI32 (u32le d (i + 8))
  let planes := u16le d (i + 12)
  let bpp := u16le d (i + 14)
  let compression := u32le d (i + 16)
  let sizeImage0 := u32le d (i + 20)
  if planes ≠ 1 ∨ ¬ [1, 4, 8, 16, 24, 32].contains bpp ∨ compression > 5 then none
  else if aw = 0 ∨ ah = 0 ∨ aw > 10000 ∨ ah > 10000 then none
  else
    let sizeImage := if sizeImage0 = 0 then ((bpp * aw + 31) / 32) * 4 * ah else sizeImage0
    let cts := if bpp ≤ 8 then 2 ^ bpp * 4 else 0
    let dibLen := 40 + cts + sizeImage
    if i + dibLen > d.length then none else some dibLen

theorem dibLenAt_ge {d : Bytes} {i dl : Nat} (h : dibLenAt d i = some dl) : 40 ≤ dl := by
  unfold dibLenAt at h
  simp only at h
  repeat' split at h
  all_goals first
    | (injection h with h; omega)
    | (injection h)

/-- `_extract_images_from_word_document` main loop: `(accepted (offset, dib_len), steps)`.
    Loop test `i + 40 <= data_len`; variant `len − i` (`i = start ≥ i`, then `i += 1` or
    `i += dib_len` with `dib_len ≥ 40`). -/
def dibCarve (d : Bytes) (i : Nat) : List (Nat × Nat) × Nat :=
  if h : i + 40 ≤ d.length then
    match hf : findFrom dibSig d i with
    | none => ([], 1)
    | some start =>
      if hs : start + 40 > d.length then ([], 1)
      else
        match hl : dibLenAt d start with
        | none => let r := dibCarve d (start + 1); (r.1, r.2 + 1)
        | some dl => let r := dibCarve d (start + dl); ((start, dl) :: r.1, r.2 + 1)
  else ([], 0)
termination_by d.length - i
decreasing_by
  · have := (findFrom_ge hf).1; omega
  · have := (findFrom_ge hf).1
    have := dibLenAt_ge hl
    omega

/-- inner loop of `_extract_png_images_from_bytes`: chunk walk from `pos`;
    `(end of PNG if an IEND chunk was reached, steps)`.  Loop test `pos + 12 <= len(data)`;
    variant `len − pos` (`pos = crc_end = pos + 12 + length`). -/
def pngChunks (d : Bytes) (pos : Nat) : Option Nat × Nat :=
  if h : pos + 12 ≤ d.length then
    let length := u32be d pos
    let crcEnd := pos + 8 + length + 4
    if crcEnd > d.length then (none, 1)
    else if slice d (pos + 4) (pos + 8) == [73, 69, 78, 68] then (some crcEnd, 1)
    else let r := pngChunks d crcEnd; (r.1, r.2 + 1)
  else (none, 0)
termination_by d.length - pos

/-- outer loop of `_extract_png_images_from_bytes` AS IT IS in the unfixed source: every signature
    restarts a chunk walk and the scan resumes at `start + 1`.
    `(carved (start, end) before de-duplication, outer steps, inner steps)`.
    Variant `len − offset` (`offset = start + 1 > offset`). -/
def pngCarve (d : Bytes) (off : Nat) : List (Nat × Nat) × Nat × Nat :=
  match hf : findFrom pngSig d off with
  | none => ([], 1, 0)
  | some start =>
      let w := pngChunks d (start + 8)
      let r := pngCarve d (start + 1)
      ((match w.1 with | some e => [(start, e)] | none => []) ++ r.1, r.2.1 + 1, r.2.2 + w.2)
termination_by d.length - off
decreasing_by
  have := findFrom_ge hf
  simp [pngSig] at this
  omega

/-! ## ms_legacy/rtf_extractor.py -/

abbrev Str := List Nat   -- code points

def strAt (s : Str) (i : Nat) : Nat := s.getD i 0
/-- `lower.startswith(pfx, i)` -/
def startsAt (pfx s : Str) (i : Nat) : Bool := (s.drop i).take pfx.length == pfx

/-- inner loop of `_remove_ignorable_groups`: skip a brace group starting at `i`
    (`depth` counts as Python does; it may not return to 0, then the scan runs to `n`).
    `(new i, steps)`; variant `n − i`. -/
def skipGroup (s : Str) (i : Nat) (depth : Int) : Nat × Nat :=
  if h : i < s.length then
    let c := strAt s i
    if c = 123 then let r := skipGroup s (i + 1) (depth + 1); (r.1, r.2 + 1)
    else if c = 125 then
      if depth - 1 = 0 then (i + 1, 1)
      else let r := skipGroup s (i + 1) (depth - 1); (r.1, r.2 + 1)
    else let r := skipGroup s (i + 1) depth; (r.1, r.2 + 1)
  else (i, 0)
termination_by s.length - i

theorem skipGroup_ge (s : Str) (i : Nat) (depth : Int) : i ≤ (skipGroup s i depth).1 := by
  fun_induction skipGroup s i depth <;> simp_all +zetaDelta <;> omega

theorem skipGroup_gt (s : Str) (i : Nat) (depth : Int) (h : i < s.length) : i < (skipGroup s i depth).1 := by
  unfold skipGroup
  simp only [h, ↓reduceDIte]
  have h1 := skipGroup_ge s (i + 1) (depth + 1)
  have h2 := skipGroup_ge s (i + 1) (depth - 1)
  have h3 := skipGroup_ge s (i + 1) depth
  split
  · simp; omega
  · split
    · split
      · simp
      · simp; omega
    · simp; omega

theorem skipGroup_le (s : Str) (i : Nat) (depth : Int) (h : i ≤ s.length) : (skipGroup s i depth).1 ≤ s.length := by
  fun_induction skipGroup s i depth <;> simp_all +zetaDelta <;> omega

/-- `_remove_ignorable_groups(text)`; `lower` is `text.lower()` computed by CPython (a parameter:
    it may differ in length from `text`).  `(output, outer steps, inner steps)`.
    Outer loop test `i < n`; variant `n − i`: `i += 1`, or the inner loop which starts on a `{`
    and therefore advances `i` by at least 1. -/
def removeIgnorable (prefixes : List Str) (text lower : Str) (i : Nat) : Str × Nat × Nat :=
  if h : i < text.length then
    if strAt text i ≠ 123 then
      let r := removeIgnorable prefixes text lower (i + 1); (strAt text i :: r.1, r.2.1 + 1, r.2.2)
    else if prefixes.any (fun p => startsAt p lower i) then
      let g := skipGroup text i 0
      let r := removeIgnorable prefixes text lower g.1; (r.1, r.2.1 + 1, r.2.2 + g.2)
    else
      let r := removeIgnorable prefixes text lower (i + 1); (strAt text i :: r.1, r.2.1 + 1, r.2.2)
  else ([], 0, 0)
termination_by text.length - i
decreasing_by
  · omega
  · have := skipGroup_gt text i 0 h
    have := skipGroup_le text i 0 (Nat.le_of_lt h)
    omega
  · omega

/-- inner scans of `_strip_rtf_full_with_pages`: `while j < n and p(text[j]): j += 1`
    (`(new j, steps)`, variant `n − j`). -/
def scanWhile (p : Nat → Bool) (s : Str) (j : Nat) : Nat × Nat :=
  if h : j < s.length then
    if p (strAt s j) then let r := scanWhile p s (j + 1); (r.1, r.2 + 1) else (j, 0)
  else (j, 0)
termination_by s.length - j

theorem scanWhile_ge (p : Nat → Bool) (s : Str) (j : Nat) : j ≤ (scanWhile p s j).1 := by
  fun_induction scanWhile p s j <;> simp_all +zetaDelta <;> omega

theorem scanWhile_gt (p : Nat → Bool) (s : Str) (j : Nat) (h : j < s.length) (hp : p (strAt s j) = true) :
    j < (scanWhile p s j).1 := by
  unfold scanWhile
  simp only [h, ↓reduceDIte, hp, ↓reduceIte]
  have := scanWhile_ge p s (j + 1)
  simp; omega

/-- `while k and p(control_word[k-1]): k -= 1` — structural on the reversed word; `(k, steps)` -/
def trimBack (p : Nat → Bool) : List Nat → Nat × Nat
  | [] => (0, 0)
  | c :: rest => if p c then let r := trimBack p rest; (r.1, r.2 + 1) else (rest.length + 1, 0)

/-- length of `_RE_UNICODE.match(text, i)` = `\\u(-?\d+)\??`, 0 when there is no match -/
def uniMatchLen (digit : Nat → Bool) (s : Str) (i : Nat) : Nat :=
  if strAt s i = 92 ∧ i < s.length ∧ strAt s (i + 1) = 117 ∧ i + 1 < s.length then
    let j0 := if strAt s (i + 2) = 45 ∧ i + 2 < s.length then i + 3 else i + 2
    let j1 := (scanWhile digit s j0).1
    if j1 = j0 then 0
    else if strAt s j1 = 63 ∧ j1 < s.length then j1 + 1 - i else j1 - i
  else 0

structure RtfState where
  groupDepth : Int := 0
  skipGroup : Bool := false
  skipDepth : Int := 0

/-- main loop of `_strip_rtf_full_with_pages`, index skeleton: the list of values of `i` at the start
    of every iteration.  `alpha`/`digit` are `str.isalpha`/`str.isdigit` (parameters), `skipDest i`
    is `_is_skip_destination(text[i+1:i+30])`.  Loop test `i < n`; variant `n − i`; every branch
    advances: `i += 1`, `i += 2`, `i += 4`, `i += len(m.group(0))` (≥ 3), `i = j` (≥ i + 2). -/
def rtfWalk (alpha digit : Nat → Bool) (skipDest : Str → Nat → Bool) (s : Str) (i : Nat) (st : RtfState) : List Nat :=
  if h : i < s.length then
    let c := strAt s i
    if c = 123 then
      let gd := st.groupDepth + 1
      let st' : RtfState :=
        if i + 1 < s.length ∧ strAt s (i + 1) = 92 ∧ skipDest s i then ⟨gd, true, gd⟩ else { st with groupDepth := gd }
      i :: rtfWalk alpha digit skipDest s (i + 1) st'
    else if c = 125 then
      let sg := if st.skipGroup ∧ st.groupDepth = st.skipDepth then false else st.skipGroup
      i :: rtfWalk alpha digit skipDest s (i + 1) ⟨st.groupDepth - 1, sg, st.skipDepth⟩
    else if st.skipGroup then i :: rtfWalk alpha digit skipDest s (i + 1) st
    else if c = 92 then
      if i + 1 ≥ s.length then i :: rtfWalk alpha digit skipDest s (i + 1) st
      else
        let nc := strAt s (i + 1)
        if nc = 92 ∨ nc = 123 ∨ nc = 125 then i :: rtfWalk alpha digit skipDest s (i + 2) st
        else if nc = 117 then
          let m := uniMatchLen digit s i
          i :: rtfWalk alpha digit skipDest s (i + (if m = 0 then 2 else m)) st
        else if nc = 39 then
          i :: rtfWalk alpha digit skipDest s (if i + 3 < s.length then i + 4 else i + 2) st
        else if alpha nc then
          let j1 := (scanWhile alpha s (i + 1)).1
          let j2 := if j1 < s.length ∧ (digit (strAt s j1) ∨ strAt s j1 = 45) then
                      (scanWhile (fun c => digit c || c == 45) s j1).1 else j1
          let j3 := if j2 < s.length ∧ strAt s j2 = 32 then j2 + 1 else j2
          i :: rtfWalk alpha digit skipDest s j3 st
        else i :: rtfWalk alpha digit skipDest s (i + 2) st
    else i :: rtfWalk alpha digit skipDest s (i + 1) st
  else []
termination_by s.length - i
decreasing_by
  all_goals first
    | omega
    | (split <;> omega)
    | (rename_i hlen _ _ _ ha
       have g1 := scanWhile_gt alpha s (i + 1) (by omega) ha
       have g2 := scanWhile_ge (fun c => digit c || c == 45) s (scanWhile alpha s (i + 1)).1
       repeat' split
       all_goals omega)

/-! ## stacks, counters -/

/-- `while heading_stack and heading_stack[-1][0] >= level: heading_stack.pop()` (data_types.py ×3);
    the stack is given top first; structural; `(remaining, steps)` -/
def popHeadings (level : Int) : List Int → List Int × Nat
  | [] => ([], 0)
  | l :: rest => if l ≥ level then let r := popHeadings level rest; (r.1, r.2 + 1) else (l :: rest, 0)

/-- pdf_extractor `_patched_build_char_map` (restore on last exit): `while _CHAR_MAP_PATCH_ORIGINALS: … = _CHAR_MAP_PATCH_ORIGINALS.pop()`;
    drains the saved-originals stack; structural; `(remaining, steps)` -/
def drainStack {α} : List α → List α × Nat
  | [] => ([], 0)
  | _ :: rest => let r := drainStack rest; (r.1, r.2 + 1)

/-- ods `_extract_sheet`: `while raw_rows and all(v[0] is None for v in raw_rows[-1]): raw_rows.pop()`;
    rows given last first, a row is its list of "typed value is None" flags; structural. -/
def trimEmptyRows : List (List Bool) → List (List Bool) × Nat
  | [] => ([], 0)
  | r :: rest => if r.all id then let t := trimEmptyRows rest; (t.1, t.2 + 1) else (r :: rest, 0)

/-- util/omml_to_latex.py `process_element`:
    `while pending_sqrt_close and pending_sqrt_close[-1] in converted: … = converted.partition(pending_sqrt_close.pop())`.
    The stack is given top first, each entry with the answer of the `in converted` test at the moment it is on top
    (an oracle: `converted` shrinks by `partition` on every iteration); structural; `(remaining height, steps)` -/
def popSqrtClose : List Bool → Nat × Nat
  | [] => (0, 0)
  | found :: rest => if found then let r := popSqrtClose rest; (r.1, r.2 + 1) else (rest.length + 1, 0)

def xtime (a : Nat) : Nat :=
  let a := a % 256
  if a ≥ 128 then ((a * 2) ^^^ 0x1B) % 256 else (a * 2) % 256

/-- `_gf_mul` loop `while b: … b >>= 1`; variant `b`. `(result, steps)` -/
def gfMulLoop (a b result : Nat) : Nat × Nat :=
  if h : b = 0 then (result % 256, 0)
  else
    let r := gfMulLoop (xtime a) (b / 2) (if b % 2 = 1 then result ^^^ a else result)
    (r.1, r.2 + 1)
termination_by b
decreasing_by omega

def gfMul (a b : Nat) : Nat × Nat := gfMulLoop (a % 256) (b % 256) 0

/-! ## pdf/pdf_extractor.py table helpers -/

/-- `_extract_row`: `while idx >= 0 and is_numeric_token(tokens[idx]): idx -= 1` — structural on the
    reversed token flags; `(number of trailing numeric tokens, steps)` -/
def trailingNumeric : List Bool → Nat × Nat
  | [] => (0, 0)
  | b :: rest => if b then let r := trailingNumeric rest; (r.1 + 1, r.2 + 1) else (0, 0)

def isDigits (s : List Char) : Bool := !s.isEmpty && s.all Char.isDigit

/-- one pass of the `for idx in range(len(merged) - 1)` search: merge the first adjacent all-digit pair -/
def mergeFirstPair : List (List Char) → Option (List (List Char))
  | a :: b :: rest =>
    if isDigits a && isDigits b then some ((a ++ b) :: rest)
    else (mergeFirstPair (b :: rest)).map (a :: ·)
  | _ => none

theorem mergeFirstPair_length (l r : List (List Char)) (h : mergeFirstPair l = some r) : r.length + 1 = l.length := by
  induction l generalizing r with
  | nil => simp [mergeFirstPair] at h
  | cons a t ih =>
    cases t with
    | nil => simp [mergeFirstPair] at h
    | cons b rest =>
      simp only [mergeFirstPair] at h
      split at h
      · cases h; simp
      · cases hm : mergeFirstPair (b :: rest) with
        | none => simp [hm] at h
        | some r' =>
          simp [hm] at h
          have := ih r' hm
          subst h; simp at this ⊢; omega

/-- `_normalize_values`: `while len(merged) > expected_count:` … every iteration deletes one element;
    variant `len(merged)`.  (`expected_count > 0` is checked before the loop.)  `(merged, steps)` -/
def normalizeLoop (expected : Nat) (merged : List (List Char)) : List (List Char) × Nat :=
  if h : merged.length > expected ∧ expected > 0 then
    match hm : mergeFirstPair merged with
    | some m' => let r := normalizeLoop expected m'; (r.1, r.2 + 1)
    | none =>
      match merged, h with
      | a :: b :: rest, _ => let r := normalizeLoop expected ((a ++ b) :: rest); (r.1, r.2 + 1)
      | [_], _ => (merged, 0)   -- unreachable: length > expected ≥ 1
      | [], _ => (merged, 0)
  else (merged, 0)
termination_by merged.length
decreasing_by
  · have := mergeFirstPair_length _ _ hm; omega
  · simp

/-- `_extract_word_date_header`: `while look_idx < len(lines) and len(block) < max_block: … look_idx += 1`
    over the "line is non-empty" flags from `look_idx` on; structural; `(block size reached, steps)` -/
def lookAhead (maxBlock : Nat) : List Bool → Nat → Nat × Nat
  | [], blk => (blk, 0)
  | b :: rest, blk => if blk < maxBlock then let r := lookAhead maxBlock rest (if b then blk + 1 else blk); (r.1, r.2 + 1) else (blk, 0)

/-! ## util/sevenzip.py — header stream readers -/

inductive SzErr | bad7z | overflow
deriving Repr, DecidableEq

structure Rd (α : Type) where
  val : α
  pos : Nat

/-- `_read_bytes(n)` on a `BytesIO` at `pos` (which may lie beyond the end after a `seek`):
    `read(n)` needs `n < 2^63` (else `OverflowError`), returns what is left, and a short read is `Bad7zFile` -/
def readBytes (d : Bytes) (pos n : Nat) : Except SzErr (Rd Bytes) :=
  if n ≥ 2 ^ 63 then .error .overflow
  else if pos + n ≤ d.length ∨ n = 0 then .ok ⟨slice d pos (pos + n), if pos + n ≤ d.length then pos + n else pos⟩
  else .error .bad7z

def readU8 (d : Bytes) (pos : Nat) : Except SzErr (Rd Nat) :=
  if pos < d.length then .ok ⟨byte d pos, pos + 1⟩ else .error .bad7z

def readU32 (d : Bytes) (pos : Nat) : Except SzErr (Rd Nat) :=
  if pos + 4 ≤ d.length then .ok ⟨u32le d pos, pos + 4⟩ else .error .bad7z

/-- `_read_number` (`for i in range(8)`: a bounded loop, structural on the remaining count) -/
def readNumberGo (d : Bytes) (first : Nat) : Nat → Nat → Nat → Nat → Except SzErr (Rd Nat)
  | 0, _, value, pos => .ok ⟨value, pos⟩
  | k + 1, i, value, pos =>
    let mask := 2 ^ (7 - i)
    if (first / mask) % 2 = 0 then .ok ⟨value + (first % mask) * 2 ^ (8 * i), pos⟩
    else do
      let b ← readU8 d pos
      readNumberGo d first k (i + 1) (value + b.val * 2 ^ (8 * i)) b.pos

def readNumber (d : Bytes) (pos : Nat) : Except SzErr (Rd Nat) := do
  let f ← readU8 d pos
  readNumberGo d f.val 8 0 0 f.pos

theorem readBytes_pos {d pos n r} (h : readBytes d pos n = .ok r) : pos ≤ r.pos := by
  unfold readBytes at h
  split at h
  · cases h
  · split at h
    · cases h; simp; split <;> omega
    · cases h

theorem readU8_pos {d pos r} (h : readU8 d pos = .ok r) : r.pos = pos + 1 ∧ pos < d.length := by
  unfold readU8 at h; split at h
  · cases h; simp_all
  · cases h

theorem readNumberGo_pos {d first k i value pos r} (h : readNumberGo d first k i value pos = .ok r) :
    pos ≤ r.pos ∧ (r.pos = pos ∨ r.pos ≤ d.length) := by
  induction k generalizing i value pos r with
  | zero => simp [readNumberGo] at h; cases h; simp
  | succ k ih =>
    simp only [readNumberGo] at h
    split at h
    · cases h; simp
    · cases hb : readU8 d pos with
      | error e => simp [hb, bind, Except.bind] at h
      | ok b =>
        simp [hb, bind, Except.bind] at h
        have := ih h
        have := readU8_pos hb
        omega

theorem readNumber_pos {d pos r} (h : readNumber d pos = .ok r) : pos < r.pos ∧ r.pos ≤ d.length := by
  unfold readNumber at h
  cases hf : readU8 d pos with
  | error e => simp [hf, bind, Except.bind] at h
  | ok f =>
    simp [hf, bind, Except.bind] at h
    have := readNumberGo_pos h
    have := readU8_pos hf
    omega

/-- `_parse_main_header`: `while True:` skipping archive properties
    (`prop_id = read_uint8(); if END: break; size = read_number(); read_bytes(size)`).
    `(position after the END byte, steps)`; variant `len − pos` (each iteration consumes ≥ 2 bytes or raises). -/
def skipArchiveProps (d : Bytes) (pos : Nat) : Except SzErr (Nat × Nat) :=
  match hp : readU8 d pos with
  | .error e => .error e
  | .ok p =>
    if p.val = 0 then .ok (p.pos, 1)
    else
      match hn : readNumber d p.pos with
      | .error e => .error e
      | .ok sz =>
        match hb : readBytes d sz.pos sz.val with
        | .error e => .error e
        | .ok b =>
          match skipArchiveProps d b.pos with
          | .error e => .error e
          | .ok (q, s) => .ok (q, s + 1)
termination_by d.length + 1 - pos
decreasing_by
  have := readU8_pos hp
  have := readNumber_pos hn
  have := readBytes_pos hb
  omega

/-- `for i in range(num_files): while True: char = u16; if char == 0: break` — one name;
    variant `len − pos` (2 bytes per iteration or `Bad7zFile`). `(name, pos, steps)` -/
def readName (d : Bytes) (pos : Nat) : Except SzErr (List Nat × Nat × Nat) :=
  if h : pos + 2 ≤ d.length then
    let c := u16le d pos
    if c = 0 then .ok ([], pos + 2, 1)
    else
      match readName d (pos + 2) with
      | .error e => .error e
      | .ok (nm, p, s) => .ok (c :: nm, p, s + 1)
  else .error .bad7z
termination_by d.length - pos

/-- `num_files` names (bounded `for`, structural on the count) -/
def readNames (d : Bytes) : Nat → Nat → Except SzErr (List (List Nat) × Nat × Nat)
  | 0, pos => .ok ([], pos, 0)
  | k + 1, pos => do
    let (nm, p, s) ← readName d pos
    let (rest, p', s') ← readNames d k p
    return (nm :: rest, p', s + s')

/-- `_read_boolean_vector(count)` without `check_defined`: only success/failure and the bytes consumed matter here -/
def boolVectorBytes (count : Nat) : Nat := (count + 7) / 8

structure FilesInfo where
  numFiles : Nat
  names : Option (List (List Nat))      -- none: no NAME property seen
  endPos : Nat
  steps : Nat          -- iterations of the outer `while True`
  nameSteps : Nat      -- iterations of the inner `while True`
  alloc : Nat          -- list cells allocated from the declared count alone (`[x] * num_files`)
deriving Repr

/-- the first `n` bits (MSB first) of the bytes at `pos`: `_read_boolean_vector(n)` -/
def bitAt (d : Bytes) (pos j : Nat) : Bool := (byte d (pos + j / 8) / 2 ^ (7 - j % 8)) % 2 = 1
def popcountBits (d : Bytes) (pos n : Nat) : Nat := ((List.range n).filter (bitAt d pos)).length

/-- outer `while True` of `_parse_files_info` from `pos` (after `num_files` was read).
    Each iteration reads `prop_id`, `size`, runs the handler (which may raise), then
    `seek(end_pos)` with `end_pos = tell() + size` ≥ the position after `size` > `pos`.
    `emptyCount` is `sum(empty_streams)` (0 until an EMPTY_STREAM property was read).
    Variant `len + 1 − pos` (a position beyond the end makes the next `read_uint8` raise). -/
def filesInfoLoop (d : Bytes) (numFiles : Nat) (pos : Nat) (names : Option (List (List Nat))) (emptyCount : Nat)
    (steps nameSteps alloc : Nat) : Except SzErr FilesInfo :=
  match hp : readU8 d pos with
  | .error e => .error e
  | .ok p =>
    if p.val = 0 then .ok ⟨numFiles, names, p.pos, steps + 1, nameSteps, alloc⟩
    else
      match hn : readNumber d p.pos with
      | .error e => .error e
      | .ok sz =>
        let endPos := sz.pos + sz.val
        -- handlers: (names, emptyCount, nameSteps, alloc)
        let handled : Except SzErr (Option (List (List Nat)) × Nat × Nat × Nat) :=
          if p.val = 0x0E then
            if sz.pos + boolVectorBytes numFiles ≤ d.length then .ok (names, popcountBits d sz.pos numFiles, nameSteps, alloc) else .error .bad7z
          else if p.val = 0x0F then
            -- `_read_boolean_vector(sum(empty_streams))`
            if sz.pos + boolVectorBytes emptyCount ≤ d.length ∨ emptyCount = 0 then .ok (names, emptyCount, nameSteps, alloc) else .error .bad7z
          else if p.val = 0x11 then
            match readU8 d sz.pos with
            | .error e => .error e
            | .ok ext =>
              if ext.val ≠ 0 then .error .bad7z
              else match readNames d numFiles ext.pos with
                | .error e => .error e
                | .ok (nms, _, s) => .ok (some nms, emptyCount, nameSteps + s, alloc)
          else if p.val = 0x15 then
            match readU8 d sz.pos with
            | .error e => .error e
            | .ok allDef =>
              if allDef.val ≠ 0 then
                -- `[True] * count`, the External byte (must be 0), then one `read_uint32` per file
                match readU8 d allDef.pos with
                | .error e => .error e
                | .ok ext =>
                  if ext.val ≠ 0 then .error .bad7z
                  else if ext.pos + 4 * numFiles ≤ d.length ∨ numFiles = 0 then .ok (names, emptyCount, nameSteps, alloc + numFiles) else .error .bad7z
              else if allDef.pos + boolVectorBytes numFiles ≤ d.length then
                let k := popcountBits d allDef.pos numFiles
                match readU8 d (allDef.pos + boolVectorBytes numFiles) with
                | .error e => .error e
                | .ok ext =>
                  if ext.val ≠ 0 then .error .bad7z
                  else if ext.pos + 4 * k ≤ d.length ∨ k = 0 then .ok (names, emptyCount, nameSteps, alloc) else .error .bad7z
              else .error .bad7z
          else .ok (names, emptyCount, nameSteps, alloc)
        match handled with
        | .error e => .error e
        | .ok (names', emptyCount', nameSteps', alloc') =>
          if endPos ≥ 2 ^ 63 then .error .overflow
          else filesInfoLoop d numFiles endPos names' emptyCount' (steps + 1) nameSteps' alloc'
termination_by d.length + 1 - pos
decreasing_by
  have := readU8_pos hp
  have := readNumber_pos hn
  omega

/-! ## amplifying witnesses (used by the counterexample theorems and replayed on the real code) -/

def be32 (n : Nat) : Bytes := [n / 16777216 % 256, n / 65536 % 256, n / 256 % 256, n % 256]
def le32 (n : Nat) : Bytes := [n % 256, n / 256 % 256, n / 65536 % 256, n / 16777216 % 256]

/-- `k` PNG signatures, each followed by one chunk header whose length field jumps to the start of ONE shared
    chain of `m` empty `tEXt` chunks (no IEND): `16k + 4 + 12m` bytes, `k·(m+1)` inner iterations. -/
def pngAmplifier (k m : Nat) : Bytes :=
  (List.range k).flatMap (fun j => pngSig ++ be32 (k * 16 + 4 - 4 - (j * 16 + 8 + 8)) ++ [106, 85, 78, 75])
    ++ [0, 0, 0, 0] ++ (List.replicate m ([0, 0, 0, 0, 116, 69, 88, 116, 0, 0, 0, 0])).flatten

/-- `k` nested SlideListWithText containers (instance 0, empty innermost): `8k` bytes -/
def pptNest : Nat → Bytes
  | 0 => []
  | k + 1 => [0x0F, 0x00, 0xF0, 0x0F] ++ le32 (8 * k) ++ pptNest k

/-- `num_files = self._read_number()` followed by `[False] * num_files`, `[""] * num_files`,
    `[0] * num_files`: list cells allocated from the declared count alone, before anything else is read.
    `fixed = true` models the repaired source, which first refuses a count larger than the number of header
    bytes that remain (a real entry needs at least its 2-byte name terminator). -/
def filesInfoCount (fixed : Bool) (d : Bytes) (pos : Nat) : Except SzErr (Rd Nat) :=
  match readNumber d pos with
  | .error e => .error e
  | .ok n => if fixed ∧ n.val > d.length - n.pos then .error .bad7z else .ok n

def filesInfoAlloc (fixed : Bool) (d : Bytes) (pos : Nat) : Nat :=
  match filesInfoCount fixed d pos with
  | .error _ => 0
  | .ok n => 3 * n.val

/-- `_parse_files_info` on the header stream `d` from `pos` (with `_build_file_list` left out) -/
def parseFilesInfo (fixed : Bool) (d : Bytes) (pos : Nat) : Except SzErr FilesInfo :=
  match filesInfoCount fixed d pos with
  | .error e => .error e
  | .ok n => filesInfoLoop d n.val n.pos none 0 0 0 (3 * n.val)

end S2T.Loops
